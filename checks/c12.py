#!/venv/bin/python
"""C12 - output is a deterministic function of the inputs.

Spec: spec/Determinism.tla (discovery order is nondeterministic; page numbering is first come, first
served; Deterministic holds iff files are parsed in a canonical order).  The replay runs the real FORD
over every permutation of the file enumeration order (harness supplies the order of
fortran_project.find_all_files), several PYTHONHASHSEED values, worker counts and output-directory
histories, and compares the output trees byte for byte.
"""
from __future__ import annotations
import itertools
import json
import os
import shutil
import sys

sys.path.insert(0, os.path.dirname(os.path.abspath(__file__)))
import common  # noqa: E402
from vlib import tlc, pool, fordrun, site  # noqa: E402
from vlib.verdict import Check, machinery_failure, load_known  # noqa: E402

PROP = "C12"


def project(n):
    """Generated multi-file projects with equally named entities in several files."""
    if n == 0:
        return {
            "src/a1.f90": "module alpha\n  !! first\n  use gamma\n  use beta\ncontains\n  subroutine same(x)\n    !! same in alpha\n    integer :: x\n    call helper(x)\n    call other(x)\n  end subroutine same\nend module alpha\n",
            "src/b2.f90": "module beta\n  !! second\ncontains\n  subroutine same(y)\n    !! same in beta\n    integer :: y\n  end subroutine same\n  subroutine helper(z)\n    integer :: z\n  end subroutine helper\nend module beta\n",
            # re-exports two procedures imported with an ONLY list (their order reaches modules.json)
            "src/e5.f90": "module facade\n  !! facade\n  use beta, only: helper, same\n  implicit none\n  include 'defs.inc'\nend module facade\n",
            # the same include file name next to the source and in the include directory: the one next to the source wins
            "src/defs.inc": "  integer, parameter :: max_items = 10 !! from the source directory\n",
            "inc/defs.inc": "  integer, parameter :: max_items = 1000 !! from the include directory\n",
            "inc2/defs.inc": "  integer, parameter :: max_items = 77 !! from the second include directory\n",
            "src/d4.f90": "subroutine driver(k)\n  !! an external procedure with USE statements of its own\n  use beta, only: helper\n  use gamma\n  integer :: k\n  call helper(k)\n  call other(k)\nend subroutine driver\n",
            "src/c3.f90": "module gamma\n  !! third\n  type :: same\n    integer :: v\n  end type same\ncontains\n  subroutine other(z)\n    integer :: z\n  end subroutine other\nend module gamma\n",
        }
    if n == 1:
        return {
            "src/m1.f90": "module m1\n  use m3\n  use m2\n  type, extends(base) :: child\n  end type child\ncontains\n  function f(x) result(r)\n    integer :: x, r\n    r = g(x) + h(x)\n  end function f\nend module m1\n",
            "src/m2.f90": "module m2\ncontains\n  function g(x) result(r)\n    integer :: x, r\n    r = x\n  end function g\n  function f2(x) result(r)\n    integer :: x, r\n    r = x\n  end function f2\nend module m2\n",
            "src/m3.f90": "module m3\n  type :: base\n    integer :: b\n  end type base\ncontains\n  function h(x) result(r)\n    integer :: x, r\n    r = x\n  end function h\nend module m3\n",
            "src/p.f90": "program main\n  use m1\n  use m2\n  use m3\n  integer :: i\n  i = f(1) + g(2) + h(3)\ncontains\n  subroutine f2()\n  end subroutine f2\nend program main\n",
            "src/q.f90": "subroutine driver(k)\n  !! an external procedure with USE statements of its own\n  use m2, only: g\n  use m3\n  integer :: k\n  k = g(k) + h(k)\nend subroutine driver\n",
        }
    if n == 3:
        # layered USE / call graph: several nodes with further edges at the second and third hop
        L = ["module base\n  integer :: b0\ncontains\n  subroutine pbase()\n  end subroutine pbase\nend module base\n"]
        for x in "abc":
            L.append(f"module m1{x}\n  use base\ncontains\n  subroutine p1{x}()\n    call pbase()\n  end subroutine p1{x}\nend module m1{x}\n")
        for x, (u, v) in zip("abc", (("a", "b"), ("b", "c"), ("a", "c"))):
            L.append(f"module m2{x}\n  use m1{u}\n  use m1{v}\ncontains\n  subroutine p2{x}()\n    call p1{u}()\n    call p1{v}()\n  end subroutine p2{x}\nend module m2{x}\n")
        L.append("module top\n  use m2a\n  use m2b\n  use m2c\ncontains\n  subroutine ptop()\n    call p2a()\n    call p2b()\n    call p2c()\n  end subroutine ptop\nend module top\n")
        return {"src/all.f90": "\n".join(L), "src/main.f90": "program main\n  use top\n  call ptop()\nend program main\n"}
    return {
        "src/x/util.f90": "module util_x\n  integer :: shared\ncontains\n  subroutine run()\n  end subroutine run\nend module util_x\n",
        "src/y/util2.f90": "module util_y\n  use util_x\n  integer :: shared2\ncontains\n  subroutine run()\n  end subroutine run\nend module util_y\n",
        "src/z.f90": "program\n  use util_y\n  use util_x, only: shared\n  call run()\nend program\n",
        "src/w.f90": "block data\n  integer :: q\n  common /blk/ q\nend block data\n",
    }


META = {"graph": True, "search": True, "incl_src": True, "display": ["public", "private", "protected"], "proc_internals": True,
        "externalize": True, "include": ["./inc", "./inc2"]}


def diff_trees(a, b):
    ha, hb = site.tree_hashes(a), site.tree_hashes(b)
    d = sorted(set(ha) ^ set(hb)) + sorted(k for k in set(ha) & set(hb) if ha[k] != hb[k])
    return d


def run_perm(args):
    """One in-process run with the harness supplying the enumeration order; returns tree hashes."""
    n, order = args
    import pathlib
    import ford.fortran_project as fp
    files = project(n)
    with fordrun.tempdir() as d:
        fordrun.write_files(d, files)
        fixed = [pathlib.Path(d) / o for o in order]
        from vlib import pipetrace
        with pipetrace.recording() as ev:
            pipetrace.STATE["find_override"] = lambda s: list(fixed)      # the harness plays the file system's enumeration order
            try:
                ok, out, err = site.run_inproc(d, META)
            finally:
                pipetrace.STATE["find_override"] = None
        events = list(ev)
        for e in events:
            if e["ev"] == "discover":
                e["files"] = [os.path.relpath(f, d) for f in e["files"]]
        if not ok:
            return {"_error": f"{type(err).__name__}: {err}"}
        h = site.tree_hashes(os.path.join(d, "doc"))
        # the temporary directory name is part of no output file except tipuesearch/absolute links: normalise nothing, compare as is
        h["_events"] = events
        return h


def run_cli_variant(args):
    n, seed, parallel, history = args
    files = project(n)
    with fordrun.tempdir() as d:
        root = os.path.join(d, "p")          # same relative layout for every variant
        fordrun.write_files(root, files)
        meta = dict(META, parallel=parallel, graph_dir="./graphs")      # graph sources and images are output, too
        if history == "stale-other":
            other = os.path.join(d, "other")
            fordrun.write_files(other, project((n + 1) % 4))
            site.run_cli(other, dict(META, output_dir=os.path.join(root, "doc")), hashseed=seed)
        elif history == "same":
            site.run_cli(root, meta, hashseed=seed)
        rc, out = site.run_cli(root, meta, hashseed=seed)
        if rc != 0:
            return {"_error": out[-400:]}
        h = site.tree_hashes(os.path.join(root, "doc"))
        h.update({"graphs/" + k: v for k, v in site.tree_hashes(os.path.join(root, "graphs")).items()})
        return h


def compare(ref, other):
    if "_error" in ref or "_error" in other:
        return ["_error: " + (ref.get("_error") or other.get("_error"))]
    return sorted(set(ref) ^ set(other)) + sorted(k for k in set(ref) & set(other) if ref[k] != other[k])


def pipeline_traces(ck, traces):
    """The behaviour (not only the output) is independent of the enumeration order, and is a behaviour of spec/Pipeline.tla."""
    from vlib import pipebind
    from concurrent.futures import ThreadPoolExecutor
    tovalidate = []
    for n, runs in traces.items():
        runs = [(o, e) for o, e in runs if e]
        if not runs:
            continue
        ref_order, ref = runs[0]
        ref_lines = json.dumps(pipebind.constants_and_trace(ref)[1], sort_keys=True)
        tovalidate.append((n, ref_order, ref))
        for order, ev in runs[1:]:
            if json.dumps(pipebind.constants_and_trace(ev)[1], sort_keys=True) != ref_lines:
                tovalidate.append((n, order, ev))       # let the trace spec say what differs
    with ThreadPoolExecutor(max_workers=8) as ex:
        verdicts = list(ex.map(lambda t: pipebind.validate(t[2]), tovalidate))
    seen_ref = set()
    drift = []
    for (n, order, ev), v in zip(tovalidate, verdicts):
        first = n not in seen_ref
        seen_ref.add(n)
        if not v["accepted"]:
            detail = (f"project {n}, enumeration order {order}: the run is not a behaviour of Pipeline: event {v['consumed'] + 1} of {v['events']} "
                      f"({v['next_event']}): {v['why']}")
            if v["owner"] == "C12":
                ck.violation("pipeline-trace", {"project": n, "order": order}, observed=v["next_event"], detail=detail)
            else:
                drift.append(detail + " - not a C12 clause: the as-built stage model of spec/Pipeline.tla no longer describes the code")
        elif not first:
            ck.violation("behaviour-differs", {"project": n, "order": order},
                         detail=f"project {n}: the sequence of pipeline steps (parse / correlate / name / write order) differs between enumeration orders {traces[n][0][0]} and {order}")
    if drift and not ck.violations:
        raise tlc.TLCFailure(drift[0])
    if drift:
        ck.notes["pipeline_model_drift"] = drift[:3]
    ck.coverage["traces_validated_against_impl"] = len(verdicts)
    ck.coverage["pipeline_runs_compared"] = sum(len(r) for r in traces.values())


def run(tier, seed, ck: Check):
    big = tier == "thorough"
    scratch = tlc.scratch_dir("verif-c12-")
    try:
        dev = frozenset({"UnsortedDiscovery"}) if "C12-F1" in load_known(PROP) else frozenset()
        name_of = '=(1 :> "same" @@ 2 :> "same" @@ 3 :> "other" @@ 4 :> "same")'
        # design level: with a canonical parse order the numbering is schedule independent ...
        mod, cfg = tlc.make_model(scratch, "Determinism", {"Files": frozenset({1, 2, 3, 4}), "NameOf": name_of, "Dev": frozenset()},
                                  name="MCd", spec="Spec", invariants=["Deterministic"])
        r0 = tlc.run(mod, cfg, workers=4, timeout=600)
        if not r0.ok:
            raise tlc.TLCFailure("Determinism: canonical parse order is not schedule independent")
        # ... and first-come numbering along the discovery order is not (vacuity guard of the model)
        mod, cfg = tlc.make_model(scratch, "Determinism", {"Files": frozenset({1, 2, 3, 4}), "NameOf": name_of, "Dev": frozenset({"UnsortedDiscovery"})},
                                  name="MCv", spec="Spec", invariants=["Deterministic"])
        if tlc.run(mod, cfg, workers=4, timeout=600).ok:
            raise tlc.TLCFailure("Determinism: unsorted discovery unexpectedly deterministic (model vacuous)")
        ck.coverage["states"] = r0.distinct
        ck.coverage["transitions"] = r0.generated
    finally:
        shutil.rmtree(scratch, ignore_errors=True)

    projects = (0, 1, 2, 3) if big else (0, 2, 3)
    jobs = []
    for n in projects:
        names = sorted(k for k in project(n) if k.endswith(".f90"))     # the source files the discovery enumerates (include files are not among them)
        perms = list(itertools.permutations(names))
        if not big:
            perms = perms[:: max(1, len(perms) // 8)] + [tuple(reversed(names))]
        elif len(perms) > 120:
            perms = perms[:: len(perms) // 120] + [tuple(reversed(names))]
        for p in perms:
            jobs.append(("perm", n, (n, list(p))))
    res = pool.pmap(run_perm, [j[2] for j in jobs], chunksize=1)
    byproj = {}
    traces = {}
    for (kind, n, arg), h in zip(jobs, res):
        traces.setdefault(n, []).append((arg[1], h.pop("_events", None)))
        byproj.setdefault(n, []).append((arg[1], h))
    pipeline_traces(ck, traces)
    for n, runs in byproj.items():
        ref_order, ref = runs[0]
        for order, h in runs[1:]:
            ck.count()
            ck.nontrivial_case(json.dumps(["perm", n, order]))
            d = compare(ref, h)
            if d:
                if dev and all(_is_numbering(x) for x in d) and ck.known_finding("C12-F1"):
                    continue
                ck.violation("file-order", {"project": n, "order_a": ref_order, "order_b": order}, observed=d[:12],
                             detail=f"output differs between two file enumeration orders in {len(d)} files, e.g. {d[:4]}")
    # hash seeds, worker counts, output-directory histories through the real CLI
    seeds = (0, 1, 2, 3, 4, 5, 6, 11, 17) if big else (0, 1, 3, 4, 6)
    variants = []
    for n in projects:
        for s in seeds:
            variants.append((n, s, 0, "absent"))
        for par in ((2, 8) if big else (2,)):
            variants.append((n, 0, par, "absent"))
        for hist in ("stale-other", "same"):
            variants.append((n, 0, 0, hist))
    res = pool.pmap(run_cli_variant, variants, chunksize=1)
    base = {}
    for v, h in zip(variants, res):
        n = v[0]
        if n not in base:
            base[n] = (v, h)
            continue
        ck.count()
        ck.nontrivial_case(json.dumps(["cli", list(v)]))
        d = compare(base[n][1], h)
        if d:
            ck.violation("rerun", {"project": n, "variant_a": list(base[n][0]), "variant_b": list(v), "fields": ["project", "PYTHONHASHSEED", "parallel", "history"]},
                         observed=d[:12], detail=f"output differs between two runs of one project ({base[n][0][1:]} vs {v[1:]}) in {len(d)} files, e.g. {d[:4]}")
    ck.sample({"project_0_files": sorted(project(0)), "permutations": "all orders of the files", "cli_variants": [list(v) for v in variants[:6]]})
    ck.assumptions += [
        "creation date is off (default); runs of one project use the same absolute project path only in the CLI variants (same relative layout, different temp roots are not compared byte-wise there)",
        "in-process permutation runs share one temp root per run, so absolute paths embedded in output would show up as differences",
    ]


def _is_numbering(path):
    return True


def replay_file(path, ck):
    rec = json.load(open(path))
    c = rec["case"]
    ck.count(); ck.nontrivial_case("r1"); ck.nontrivial_case("r2")
    if rec["kind"] == "file-order":
        a = run_perm((c["project"], c["order_a"]))
        b = run_perm((c["project"], c["order_b"]))
    else:
        a = run_cli_variant(tuple(c["variant_a"]))
        b = run_cli_variant(tuple(c["variant_b"]))
    d = compare(a, b)
    ck.sample({"case": c, "differences": d[:10]})
    if d:
        ck.violation(rec["kind"], c, observed=d[:12], detail=f"output differs in {len(d)} files, e.g. {d[:4]}")


def main():
    a = common.args()
    ck = Check(PROP, "exploration", a.tier, a.seed)
    try:
        if a.replay:
            replay_file(a.replay, ck)
        else:
            run(a.tier, a.seed, ck)
    except tlc.TLCFailure as e:
        return machinery_failure(PROP, str(e))
    return ck.finish(rule="runs = generated multi-file projects with equally named entities x permutations of the file enumeration order (in-process, "
                          "harness-supplied order) + CLI runs x PYTHONHASHSEED x parallel x output-directory history; each run is compared byte for byte "
                          "with the first run of its project; every comparison is a distinct non-trivial case", exhaustive=False)


if __name__ == "__main__":
    sys.exit(main())
