#!/venv/bin/python
"""C11 - [[...]] references link to the entity the documented rules select.

Spec: spec/FordLink.tla (world switches x conversion context x reference spelling -> Target).  For each
of the 16 worlds one project is built end to end carrying every (context, spelling) reference with its
own tracer; on every generated page that displays a tracer the link must resolve - from that page - to
the URL of the entity Ref selects, or be plain text when Ref says so.
"""
from __future__ import annotations
import json
import os
import posixpath
import re
import shutil
import sys

sys.path.insert(0, os.path.dirname(os.path.abspath(__file__)))
import common  # noqa: E402
from vlib import tlc, tlaval, pool, fordrun, site  # noqa: E402
from vlib.verdict import Check, machinery_failure  # noqa: E402

PROP = "C11"


def spell(l):
    s = l["n"] + (f"({l['q1']})" if l["q1"] else "")
    if l["item"]:
        s += ":" + l["item"] + (f"({l['q2']})" if l["q2"] else "")
    return f"[[{s}]]"


def build_world(w, cases):
    """cases: list of dicts {id, ctx, link}.  Returns files and project-file body."""
    lines = {c: [] for c in ("holder", "ctxproc", "alpha", "main", "projectfile", "page0", "page1")}
    for c in cases:
        lines[c["ctx"]].append(f"TRC{c['id']}X {spell(c['link'])} ENDX")
    doc = lambda ctx, ind: "".join(f"{ind}!! {x}\n{ind}!!\n" for x in lines[ctx])
    A, C, PRJ = w["A"], w["C"], w["PRJ"]
    alpha = ("module alpha\n" + doc("alpha", "  ") + "  !! verbatim `[[alpha]]` CODESPANX\n  implicit none\n"
             + ("  integer :: tgt !! alpha variable\n" if A else "")
             + "  type :: holder\n" + doc("holder", "    ")
             + ("    integer :: tgt !! holder component\n" if C else "    integer :: other\n")
             + "  contains\n    procedure :: bnd => impl\n    generic :: gnb => bnd\n  end type holder\n"
             + "  type, extends(holder) :: heir\n    !! inherits the generic binding\n    integer :: extra\n  end type heir\n"
             + "  abstract interface\n    subroutine absi(k)\n      !! an abstract interface\n      integer :: k\n    end subroutine absi\n  end interface\n"
             + "  interface holder\n    !! constructor interface\n    module procedure new_holder\n  end interface holder\ncontains\n"
             + "  function new_holder() result(h)\n    type(holder) :: h\n  end function new_holder\n"
             + "  subroutine rst()\n    !! alpha's rst\n  end subroutine rst\n"
             + "  subroutine ctxproc()\n" + doc("ctxproc", "    ")
             + ("    integer :: tgt !! local variable\n" if C else "")
             + "  end subroutine ctxproc\n  subroutine impl(self)\n    class(holder) :: self\n  end subroutine impl\nend module alpha\n")
    files = {"src/alpha.f90": alpha,
             "src/aaa.f90": "module aaa\ncontains\n  subroutine rst()\n    !! another rst, read first\n  end subroutine rst\nend module aaa\n"}
    if PRJ == "proc":
        files["src/beta.f90"] = "module beta\ncontains\n  subroutine tgt()\n    !! project-wide procedure\n  end subroutine tgt\nend module beta\n"
    elif PRJ == "type":
        files["src/beta.f90"] = "module beta\n  type :: tgt\n    !! project-wide type\n    integer :: z\n  end type tgt\nend module beta\n"
    elif PRJ == "module":
        files["src/beta.f90"] = "module tgt\n  !! project-wide module\n  integer :: zz\nend module tgt\n"
    else:
        files["src/beta.f90"] = "module beta\n  integer :: unrelated\nend module beta\n"
    files["src/main.f90"] = ("program main\n" + doc("main", "  ") + "  use alpha\n  implicit none\n"
                             + ("  integer :: tgt !! main variable\n" if C else "  integer :: mm\n") + "end program main\n")
    files["pages/index.md"] = "---\ntitle: Notes\n---\n\n" + "\n\n".join(lines["page0"]) + "\n"
    files["pages/sub/index.md"] = "---\ntitle: Deeper\n---\n\n" + "\n\n".join(lines["page1"]) + "\n"
    body = "\n\n".join(lines["projectfile"]) + "\n"
    return files, body


def resolve_target(project, tgt):
    """Entity object Ref's target tuple denotes."""
    t = tuple(tgt)
    mods = {m.name.lower(): m for m in project.modules}
    if t == ("plain",):
        return None
    if t == ("alpha",):
        return mods["alpha"]
    if t == ("tgt",):
        return mods["tgt"]
    if t == ("main",):
        return project.programs[0]
    if t == ("main", "tgt"):
        return next(v for v in project.programs[0].variables if v.name == "tgt")
    if t[0] == "beta":
        b = mods["beta"]
        return next(x for x in (b.subroutines if t[2] == "proc" else b.types) if x.name == "tgt")
    a = mods["alpha"]
    if t == ("alpha", "tgt"):
        return next(v for v in a.variables if v.name == "tgt")
    holder = next(x for x in a.types if x.name == "holder")
    ctxproc = next(x for x in a.subroutines if x.name == "ctxproc")
    if t == ("alpha", "holder"):
        return holder
    if t == ("alpha", "holder", "iface"):
        return next(x for x in a.interfaces if x.name == "holder")
    if t == ("alpha", "absi"):
        return next(x for x in a.absinterfaces if x.name == "absi")
    if t == ("alpha", "heir"):
        return next(x for x in a.types if x.name == "heir")
    if t == ("alpha", "heir", "gnb"):
        heir = next(x for x in a.types if x.name == "heir")
        return next(b for b in heir.boundprocs if b.name == "gnb")
    if t == ("alpha", "rst"):
        return next(x for x in a.subroutines if x.name == "rst")
    if t == ("alpha", "ctxproc"):
        return ctxproc
    if t == ("alpha", "holder", "tgt"):
        return next(v for v in holder.variables if v.name == "tgt")
    if t == ("alpha", "holder", "bnd"):
        return holder.boundprocs[0]
    if t == ("alpha", "ctxproc", "tgt"):
        return next(v for v in ctxproc.variables if v.name == "tgt")
    raise KeyError(t)


_OCC = re.compile(r"TRC(\d+)X\s*(.*?)\s*ENDX", re.S)
_A = re.compile(r"<a(?:\s+href=[\"']([^\"']*)[\"'])?[^>]*>(.*?)</a>", re.S)


def evaluate(job):
    w, cases = job["w"], job["cases"]
    files, body = build_world(w, cases)
    out = []
    with fordrun.tempdir("verif-c11-") as d:
        fordrun.write_files(d, files)
        # half of the worlds are written to an output directory whose name has a dot in it (doc.v2)
        outname = "doc.v2" if (w["A"] != w["C"]) else "doc"
        ok, log, err = site.run_inproc(d, {"page_dir": "./pages", "display": ["public", "private", "protected"], "proc_internals": True, "search": False,
                                            "output_dir": "./" + outname}, body=body)
        if not ok:
            return [{"id": None, "bad": f"FORD failed: {type(err).__name__}: {err}"}]
        project = site.CAPTURED["project"]
        outdir = os.path.join(d, outname)
        byid = {c["id"]: c for c in cases}
        idcache = {}
        seen = {c["id"]: 0 for c in cases}
        for rel in site.html_files(outdir):
            if rel.startswith("sourcefile/"):
                continue                      # highlighted source listings show the comment text verbatim, they are not documentation text
            text = open(os.path.join(outdir, rel), encoding="utf-8").read()
            text = re.sub(r"<head>.*?</head>", "", text, flags=re.S)          # the meta description repeats the text without mark-up
            if rel == "module/alpha.html" and "CODESPANX" in text and "[[alpha]]" not in text:
                out.append({"id": None, "bad": "a reference inside a code span was converted"})
            for m in _OCC.finditer(text):
                cid = int(m.group(1))
                c = byid.get(cid)
                if c is None:
                    continue
                seen[cid] += 1
                am = _A.search(m.group(2))
                try:
                    ent = resolve_target(project, c["target"])
                except (KeyError, StopIteration, IndexError):
                    out.append({"id": cid, "bad": f"harness cannot find Ref's target {c['target']} in the project"})
                    continue
                if ent is None:
                    if am is not None and am.group(1):
                        out.append({"id": cid, "page": rel, "bad": f"{spell(c['link'])} in {c['ctx']}: must stay plain text, linked to {am.group(1)!r}"})
                    continue
                if am is None or not am.group(1):
                    out.append({"id": cid, "page": rel, "bad": f"{spell(c['link'])} in {c['ctx']}: no link, expected {ent.get_url()!r} ({'/'.join(c['target'])})"})
                    continue
                href = am.group(1)
                got = posixpath.normpath(posixpath.join(posixpath.dirname(rel), href.split("#")[0]))
                frag = href.split("#")[1] if "#" in href else ""
                want = ent.get_url()
                wpath, wfrag = (want.split("#") + [""])[:2]
                if got != wpath or frag != wfrag:
                    out.append({"id": cid, "page": rel, "bad": f"{spell(c['link'])} in {c['ctx']}: on {rel} the link leads to {got}#{frag}, expected {want} ({'/'.join(c['target'])})"})
                    continue
                # the link must arrive: the page exists, carries the anchor, and - for an item of a named component - is that component's page
                tpath = os.path.join(outdir, got)
                if not os.path.exists(tpath):
                    out.append({"id": cid, "page": rel, "bad": f"{spell(c['link'])} in {c['ctx']}: the link leads to {got}, which was not written"})
                    continue
                if frag:
                    if got not in idcache:
                        idcache[got] = set(site.parse_page(outdir, got).ids)
                    if frag not in idcache[got]:
                        out.append({"id": cid, "page": rel, "bad": f"{spell(c['link'])} in {c['ctx']}: {got} has no element #{frag}"})
                if len(c["target"]) == 3 and c["link"]["item"] and c["link"]["n"] in ("holder", "heir") and c["target"][2] != "iface":
                    owner = resolve_target(project, c["target"][:2])
                    if got != owner.get_url().split("#")[0]:
                        out.append({"id": cid, "page": rel, "bad": f"{spell(c['link'])} in {c['ctx']}: the item of {c['link']['n']} is linked on {got}, not on {owner.get_url()}"})
        for cid, n in seen.items():
            if n == 0:
                out.append({"id": cid, "bad": f"{spell(byid[cid]['link'])} in {byid[cid]['ctx']}: its text is displayed on no generated page"})
    return out


def _parse_block(block):
    if '/\\ phase = "done"' not in block:
        return None
    st = tlaval.parse_state(block)
    return {"w": dict(st["w"]), "ctx": st["ctx"], "link": dict(st["link"]), "target": list(st["out"])}


def run(tier, seed, ck: Check):
    scratch = tlc.scratch_dir("verif-c11m-")
    try:
        mod, cfg = tlc.make_model(scratch, "FordLink", {}, name="MCvac", spec="Spec", invariants=["NeverProject"])
        if tlc.run(mod, cfg, workers=4, timeout=600).ok:
            raise tlc.TLCFailure("vacuity guard NeverProject not violated")
        mod, cfg = tlc.make_model(scratch, "FordLink", {}, name="MC", spec="Spec", invariants=["OwnBeforeParentBeforeProject", "AbsentIsPlain"])
        dump = os.path.join(scratch, "gen")
        r = tlc.run(mod, cfg, workers=8, dump=dump, timeout=900)
        if not r.ok:
            raise tlc.TLCFailure(f"FordLink: {r.violated} violated")
        cases = [c for c in pool.pmap(_parse_block, tlc.read_dump_blocks(r.dump_file), chunksize=500) if c]
        os.remove(r.dump_file)
        ck.coverage["states"] = r.distinct
        ck.coverage["transitions"] = r.generated
    finally:
        shutil.rmtree(scratch, ignore_errors=True)
    cases.sort(key=lambda c: json.dumps(c, sort_keys=True))
    worlds = {}
    for i, c in enumerate(cases):
        c["id"] = i
        worlds.setdefault(json.dumps(c["w"], sort_keys=True), []).append(c)
    jobs = [{"w": json.loads(k), "cases": v} for k, v in worlds.items()]
    byid = {c["id"]: c for c in cases}
    for job, res in zip(jobs, pool.pmap(evaluate, jobs, chunksize=1)):
        for c in job["cases"]:
            ck.count()
            if c["target"] != ["plain"] and (c["link"]["q1"] or c["link"]["item"] or c["ctx"] in ("holder", "ctxproc")):
                ck.nontrivial_case(json.dumps([c["w"], c["ctx"], c["link"]], sort_keys=True))
        seen = set()
        for p in res:
            c = byid.get(p.get("id")) if p.get("id") is not None else None
            key = (p.get("id"), p["bad"][:60])
            if key in seen:
                continue
            seen.add(key)
            ck.violation("ford-link", {"world": job["w"], "ctx": c["ctx"] if c else None, "link": c["link"] if c else None, "target": c["target"] if c else None},
                         detail=p["bad"])
    ck.coverage["worlds"] = len(jobs)
    ck.coverage["traces_validated_against_impl"] = 0
    ck.sample({"world": jobs[0]["w"], "references": [f"{c['ctx']}: {spell(c['link'])} -> {'/'.join(c['target'])}" for c in jobs[0]["cases"][:12]]})
    ck.assumptions += [
        "first-part qualifiers are those the guide lists for components (procedure, proc, subroutine, type, module, program); item qualifiers variable/type/bound",
        "two equally ranked candidates of different kinds with no qualifier are not generated (guide: undefined)",
        "the link found on a page is the first <a> between a reference's tracer words; its href is resolved relative to that page",
    ]


def replay_file(path, ck):
    rec = json.load(open(path))
    c = rec["case"]
    ck.count(); ck.nontrivial_case("r1"); ck.nontrivial_case("r2")
    if c.get("link") is None:
        ck.sample({"case": c})
        return
    res = evaluate({"w": c["world"], "cases": [{"id": 0, "ctx": c["ctx"], "link": c["link"], "target": c["target"]}]})
    ck.sample({"case": c, "result": res})
    for p in res:
        ck.violation("ford-link", c, detail=p["bad"])


def main():
    a = common.args()
    ck = Check(PROP, "exploration", a.tier, a.seed)
    try:
        if a.replay:
            replay_file(a.replay, ck)
        else:
            run(a.tier, a.seed, ck)
    except tlc.TLCFailure as e:
        return machinery_failure(PROP, str(e))
    return ck.finish(rule="cases = (world, context, spelling) triples of spec/FordLink.tla: 16 worlds (which same-named entities exist at the context's own "
                          "level, its parent's level and project-wide) x 7 conversion contexts (type, procedure, module, program docs; project file; static "
                          "pages at two depths) x ~62 spellings; every page displaying a reference is checked; non-trivial iff the reference has a "
                          "qualifier / item part or is resolved through the context; distinct by triple", exhaustive=True)


if __name__ == "__main__":
    sys.exit(main())
