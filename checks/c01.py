#!/venv/bin/python
"""C01 - documented entity tree equals the declared program structure.

Spec: spec/Program.tla (four grammar slices; the declared facts of a case are the reference observable,
its spelling is separate: SpellingIndependence).  Every case TLC enumerates is rendered as Fortran in the
case's spelling (letter case, attribute on the declaration vs separate statement, kind / length
spellings, END spellings), parsed and correlated by the real FORD, and the canonical entity tree
(vlib/tree.py) compared with the declared facts: every declared entity once, under its unit, with its
name, kind, arguments, type, kind/length, attributes, intent, dimensions and initial value; nothing else.
"""
from __future__ import annotations
import json
import os
import shutil
import sys
import zlib

sys.path.insert(0, os.path.dirname(os.path.abspath(__file__)))
import common  # noqa: E402
from vlib import tlc, tlaval, pool, fordrun, tree  # noqa: E402
from vlib.verdict import Check, machinery_failure  # noqa: E402

PROP = "C01"
SLICES = ("decl", "unit", "type", "iface", "multi", "head")


def K(s, up):
    """keyword / identifier in the case's letter case"""
    return s.upper() if up else s


# =============================================================== declaration slice
INIT_TEXT = {"integer": "1", "real": "1.5", "complex": "(1.0, 2.0)", "logical": "1 == 1", "character": "'a,b  c'", "doubleprecision": "1.5d0"}
ARRAY_ITEMS = {"integer": ["1", "2", "3"], "real": ["1.5", "2.5", "3.5"], "complex": ["(1.0, 2.0)", "(0.0, 1.0)", "(2.0, 0.0)"], "logical": ["1 == 1", ".false.", "2 >= 1"],
               "character": ["'a,b'", "'c d'", "'e''f'"], "doubleprecision": ["1.5d0", "2.5d0", "3.5d0"]}


TYPED = {"integer": "integer", "real": "real", "complex": "complex", "logical": "logical", "character": "character(len=3)", "doubleprecision": "double precision"}


def array_text(base, ctor):
    items = ", ".join(ARRAY_ITEMS[base])
    if ctor == "typed":
        return f"[{TYPED[base]} :: {items}]"
    return f"[{items}]" if ctor == "bracket" else f"(/ {items} /)"


def relayout(src, layout):
    """Lay out every line that has a comma outside character literals and comments as the case's spelling says."""
    if layout == "plain":
        return src
    out = []
    for line in src.split("\n"):
        q, pos = None, -1
        for i, ch in enumerate(line):
            if q:
                if ch == q:
                    q = None
            elif ch in "'\"":
                q = ch
            elif ch == "!":
                break
            elif ch == ",":
                pos = i
                break
        if pos < 0 or not line.strip():
            out.append(line)
            continue
        ind = " " * (len(line) - len(line.lstrip()) + 4)
        head, tail = line[: pos + 1], line[pos + 1:].lstrip()
        if layout == "cont":
            out += [head + " &", ind + tail]
        else:
            out += [head + " &", "", ind + "! a comment line between the parts of one statement", ind + "& " + tail]
    return "\n".join(out)



def typespec(f, up):
    b, ks = f["base"], f["kindsp"]
    if b == "doubleprecision":
        return K("double precision", up)
    if b == "type":
        return K("type", up) + "(t0)"
    if b == "class":
        return K("class", up) + "(t0)"
    if b == "procedure":
        return K("procedure", up) + "(iface)"
    kw = K(b, up)
    if b == "character":
        return {"none": kw, "star": kw + "*10", "paren": kw + "(10)", "leneq": f"{kw}({K('len', up)}=10)",
                "lenkind": f"{kw}({K('len', up)}=10, {K('kind', up)}=1)", "kindlen": f"{kw}({K('kind', up)}=1, {K('len', up)} = 10)",
                "assumed": f"{kw}({K('len', up)}=*)", "deferred": f"{kw}({K('len', up)}=:)"}[ks]
    return {"none": kw, "star": kw + "*8", "paren": kw + "(8)", "kindeq": f"{kw}({K('kind', up)}=8)"}[ks]


def attr_text(a, up):
    if a.startswith("intent_"):
        return f"{K('intent', up)}({K(a[7:], up)})"
    return K(a, up)


def render_decl(f, up, ctor="bracket"):
    """Returns (source, locator) for a declaration case."""
    name = "xv"
    dimtxt = {"none": "", "explicit": "(3)", "deferredshape": "(:)"}[f["dims"]]
    on_decl = [a for a in sorted(f["attrs"]) if f["place"][a] == "decl"]
    as_stmt = [a for a in sorted(f["attrs"]) if f["place"][a] == "stmt"]
    attrs = [attr_text(a, up) for a in on_decl]
    if f["dimform"] == "attr":
        attrs.append(f"{K('dimension', up)}{dimtxt}")
    ent = name + (dimtxt if f["dimform"] == "entity" else "")
    init = ""
    param_stmt = "parameter" in as_stmt
    if f["init"] == "value" and not param_stmt:
        init = " = " + INIT_TEXT[f["base"]]
    elif f["init"] == "null":
        init = " => null()"
    elif f["init"] == "array":
        init = " = " + array_text(f["base"], ctor)
    decl = typespec(f, up) + ("".join(", " + a for a in attrs)) + " :: " + ent + init
    extra = []
    if f["dimform"] == "stmt":
        extra.append(f"{K('dimension', up)} :: {name}{dimtxt}")
    for a in as_stmt:
        if a == "parameter":
            extra.append(f"{K('parameter', up)} ({name} = {INIT_TEXT[f['base']]})")
        else:
            extra.append(f"{attr_text(a, up)} :: {name}")
    support = ["type :: t0", "  integer :: t0c", "end type t0",
               "abstract interface", "  subroutine iface()", "  end subroutine iface", "end interface"]
    ind = lambda ls, k=1: ["  " * k + x for x in ls]
    if f["role"] == "local":
        body = ["module m", "  implicit none"] + ind(support) + ["contains", "  subroutine host()"] + ind([decl] + extra, 2) + ["  end subroutine host", "end module m"]
        loc = ("local", name)
    elif f["role"] == "dummy":
        body = ["module m", "  implicit none"] + ind(support) + ["contains", f"  subroutine host({name})"] + ind([decl] + extra, 2) + ["  end subroutine host", "end module m"]
        loc = ("dummy", name)
    else:
        body = ["module m", "  implicit none"] + ind(support) + ["  type :: holder"] + ind([decl], 2) + ["  end type holder", "end module m"]
        loc = ("component", name)
    return "\n".join(body) + "\n", loc


def expected_decl(f, ctor="bracket"):
    b = f["base"]
    exp = {"name": "xv", "type": b, "kind": None, "len": None, "proto": None}
    if b in ("integer", "real", "complex", "logical") and f["kindsp"] != "none":
        exp["kind"] = "8"
    if b == "character":
        exp["len"] = {"none": "1", "assumed": "*", "deferred": ":"}.get(f["kindsp"], "10")
        if f["kindsp"] in ("lenkind", "kindlen"):
            exp["kind"] = "1"
    if b in ("type", "class"):
        exp["proto"] = "t0"
    if b == "procedure":
        exp["proto"] = "iface"
    attrs = set(f["attrs"])
    intent = next((a[7:] for a in attrs if a.startswith("intent_")), "")
    exp["intent"] = intent
    exp["optional"] = "optional" in attrs
    exp["parameter"] = "parameter" in attrs
    exp["attribs"] = sorted(a for a in attrs if a not in ("optional", "parameter") and not a.startswith("intent_"))
    exp["dims"] = {"none": "", "explicit": "(3)", "deferredshape": "(:)"}[f["dims"]]
    exp["initial"] = None if f["init"] == "none" else ("null()" if f["init"] == "null" else INIT_TEXT[b])
    if f["init"] == "array":
        exp["initial"] = array_text(b, ctor)
    exp["initial"] = tree._squash_code(exp["initial"])
    return exp


def observe_decl(src, loc):
    p = fordrun.project({"case.f90": src})
    if not p.modules:
        return None, "file rejected / module m not reported"
    m = p.modules[0]
    t = tree.unit(m, "module")
    kind, name = loc
    if kind == "component":
        holder = next((x for x in t["types"] if x["name"] == "holder"), None)
        if holder is None:
            return None, "type holder not reported"
        lst, where = holder["components"], "components of holder"
    else:
        host = next((x for x in t["procedures"] if x["name"] == "host"), None)
        if host is None:
            return None, "subroutine host not reported"
        lst, where = (host["args"], "arguments of host") if kind == "dummy" else (host["variables"], "local variables of host")
        other = host["variables"] if kind == "dummy" else host["args"]
        if any(v["name"] == name for v in other):
            return None, f"{name} reported in the wrong list"
    hits = [v for v in lst if v["name"] == name]
    if len(hits) != 1:
        return None, f"{name} appears {len(hits)} times among the {where} ({[v['name'] for v in lst]})"
    if len(lst) != 1:
        return None, f"{where}: {[v['name'] for v in lst]}, declared only {name}"
    # nothing undeclared at module level either
    names = sorted(x["name"] for x in t["types"]) + sorted(x["name"] for x in t["procedures"]) + [v["name"] for v in t["variables"]]
    want = sorted(["t0"] + (["holder"] if kind == "component" else [])) + (["host"] if kind != "component" else [])
    if names != want:
        return None, f"module m reports {names}, declared {want}"
    return hits[0], None


def eval_decl(case):
    f, up = case["facts"], case["spelling"]["upper"]
    src, loc = render_decl(f, up, case["spelling"].get("ctor", "bracket"))
    src = relayout(src, case["spelling"].get("layout", "plain"))
    try:
        obs, err = observe_decl(src, loc)
    except Exception as ex:
        return [f"FORD failed: {type(ex).__name__}: {ex}"], src
    if err:
        return [err], src
    exp = expected_decl(f, case["spelling"].get("ctor", "bracket"))
    bad = []
    for k, v in exp.items():
        got = obs.get(k)
        if got != v:
            bad.append(f"{k}: declared {v!r}, FORD reports {got!r}")
    return bad, src


# =============================================================== unit slice
def end_stmt(kind, name, sp, up):
    kw = {"blockdata": "block data", "subroutine": "subroutine", "function": "function", "module": "module", "submodule": "submodule", "program": "program"}[kind]
    joined = kw.replace(" ", "")
    return {"bare": K("end", up), "kind": f"{K('end', up)} {K(kw, up)}", "kindname": f"{K('end', up)} {K(kw, up)} {name}",
            "joined": K("end" + joined, up), "joinedname": f"{K('end' + joined, up)} {name}"}[sp]


def render_unit(f, sp):
    up = sp["upper"]
    kind, name = f["kind"], "uu" if f["named"] else ""
    args = ["aa", "bb"][: f["nargs"]]
    L = []
    head = []
    if kind in ("subroutine", "function"):
        pre = " ".join(K(p, up) for p in sorted(f["prefix"]))
        arglist = f"({', '.join(args)})" if (args or kind == "function") else ""
        if kind == "function" and f["resform"] == "prefix":
            head.append(f"{(pre + ' ') if pre else ''}{K('integer', up)} {K('function', up)} {name}{arglist}")
        elif kind == "function" and f["resform"] in ("result", "resultdecl"):
            head.append(f"{(pre + ' ') if pre else ''}{K('function', up)} {name}{arglist} {K('result', up)}(rr)")
        elif kind == "function":
            head.append(f"{(pre + ' ') if pre else ''}{K('function', up)} {name}{arglist}")
        else:
            head.append(f"{(pre + ' ') if pre else ''}{K('subroutine', up)} {name}{arglist}")
        body = []
        if f["argdecl"] == "typed":
            body += [f"{K('real', up)} :: {a}" for a in args]
        elif f["argdecl"] == "intent":
            body += [f"{K('real', up)}, {K('intent', up)}({K('in', up)}) :: {a}" for a in args]
        elif f["argdecl"] in ("dummyproc", "dummyprocopt"):
            body += [f"{K('interface', up)}", f"  {K('subroutine', up)} {args[0]}(k)", f"    {K('integer', up)} :: k", f"  {K('end subroutine', up)} {args[0]}", f"{K('end interface', up)}"]
            body += [f"{K('real', up)} :: {a}" for a in args[1:]]
            if f["argdecl"] == "dummyprocopt":
                body.append(f"{K('optional', up)} :: {args[0]}")
        if kind == "function" and f["resform"] in ("resultdecl",):
            body.append(f"{K('integer', up)} :: rr")
        if kind == "function" and f["resform"] == "namedecl":
            body.append(f"{K('integer', up)} :: {name}")
        if kind == "function" and f["resform"] == "result":
            body.append(f"{K('integer', up)} :: rr")
        L = head + ["  " + x for x in body]
    elif kind == "module":
        L = [f"{K('module', up)} {name}", f"  {K('integer', up)} :: mv"]
    elif kind == "submodule":
        L = [f"{K('submodule', up)} (parent) {name}", f"  {K('integer', up)} :: mv"]
    elif kind == "program":
        L = [(f"{K('program', up)} {name}").rstrip(), f"  {K('integer', up)} :: mv"]
    else:
        L = [(f"{K('block data', up)} {name}").rstrip(), f"  {K('integer', up)} :: mv", f"  {K('common', up)} /cb/ mv"]
    if f["inner"] >= 1 and kind != "blockdata":
        L.append(K("contains", up))
        L += [f"  {K('subroutine', up)} in1()"]
        if f["inner"] == 2 and kind in ("module", "submodule"):
            L += [f"  {K('contains', up)}", f"    {K('function', up)} in2() {K('result', up)}(q)", f"      {K('integer', up)} :: q", f"    {K('end function', up)} in2"]
        L += [f"  {K('end subroutine', up)} in1"]
    L.append(end_stmt(kind, name, sp["endsp"], up))
    text = "\n".join(L) + "\n"
    files = {}
    if f["where"] == "module":
        text = f"{K('module', up)} hostmod\n{K('contains', up)}\n" + "".join("  " + l + "\n" for l in text.splitlines()) + f"{K('end module', up)} hostmod\n"
    if kind == "submodule":
        files["parent.f90"] = "module parent\n  interface\n    module subroutine ms()\n    end subroutine ms\n  end interface\nend module parent\n"
    files["case.f90"] = text
    return files


def eval_unit(case):
    f, sp = case["facts"], case["spelling"]
    files = render_unit(f, sp)
    name = "uu" if f["named"] else ""
    try:
        p = fordrun.project(files)
    except Exception as ex:
        return [f"FORD failed: {type(ex).__name__}: {ex}"], files["case.f90"]
    t = tree.project_tree(p)
    cf = next((x for x in t["files"] if x["name"] == "case.f90"), None)
    if cf is None:
        return ["case.f90 rejected"], files["case.f90"]
    bad = []
    kind = f["kind"]
    if f["where"] == "module":
        host = next((m for m in cf["modules"] if m["name"] == "hostmod"), None)
        if host is None:
            return ["module hostmod not reported"], files["case.f90"]
        units = host["procedures"]
        if len(cf["modules"]) != 1 or cf["programs"] or cf["procedures"] or cf["blockdata"]:
            bad.append("spurious top-level units reported")
    else:
        units = {"module": cf["modules"], "submodule": cf["submodules"], "program": cf["programs"], "blockdata": cf["blockdata"]}.get(kind, cf["procedures"])
        allunits = cf["modules"] + cf["submodules"] + cf["programs"] + cf["procedures"] + cf["blockdata"]
        if len(allunits) != 1:
            bad.append(f"file reports units {[u['name'] for u in allunits]}, declared one {kind}")
    fname = name if name else ("<em>unnamed</em>" if kind == "blockdata" else "")
    u = next((x for x in units if x["name"] in (name, fname.lower())), None)
    if u is None:
        return bad + [f"{kind} {name!r} not reported under its parent (found {[x['name'] for x in units]})"], files["case.f90"]
    if kind in ("subroutine", "function"):
        if u["proctype"] != kind:
            bad.append(f"kind: declared {kind}, reported {u['proctype']}")
        args = [a["name"] for a in u["args"]]
        want = ["aa", "bb"][: f["nargs"]]
        if args != want:
            bad.append(f"arguments: declared {want}, reported {args}")
        if f["argdecl"] in ("typed", "intent"):
            for a in u["args"]:
                if a.get("type") != "real":
                    bad.append(f"argument {a['name']}: declared real, reported {a.get('type')}")
                if f["argdecl"] == "intent" and a.get("intent") != "in":
                    bad.append(f"argument {a['name']}: declared intent(in), reported {a.get('intent')!r}")
        if f["argdecl"] in ("dummyproc", "dummyprocopt") and u["args"]:
            a0 = u["args"][0]
            if a0.get("type") is not None or a0.get("unresolved"):
                bad.append(f"argument aa: declared by an interface block (a procedure), reported as {a0.get('type') or 'undeclared'}")
            if a0.get("optional") != (f["argdecl"] == "dummyprocopt"):
                bad.append(f"argument aa: declared {'optional' if f['argdecl'] == 'dummyprocopt' else 'not optional'}, reported optional={a0.get('optional')}")
            if u.get("interfaces"):
                bad.append(f"interface block of the dummy procedure also reported as an interface of the procedure: {[i['name'] for i in u['interfaces']]}")
        if sorted(u["attribs"]) != sorted(f["prefix"]):
            bad.append(f"prefixes: declared {sorted(f['prefix'])}, reported {u['attribs']}")
        if kind == "function":
            r = u.get("result")
            wantname = "rr" if f["resform"] in ("result", "resultdecl") else name
            if r is None or r.get("name") != wantname:
                bad.append(f"result: declared {wantname}, reported {r and r.get('name')}")
            elif r.get("type") != "integer":
                bad.append(f"result type: declared integer, reported {r.get('type')}")
        locals_ = [v["name"] for v in u.get("variables", [])]
        if locals_:
            bad.append(f"local variables {locals_} reported, none declared beyond arguments / result")
    else:
        vs = [v["name"] for v in u.get("variables", [])]
        if kind == "blockdata":
            pass
        elif vs != ["mv"]:
            bad.append(f"variables: declared ['mv'], reported {vs}")
    inner = [x["name"] for x in u.get("procedures", [])]
    want_inner = ["in1"] if (f["inner"] >= 1 and kind != "blockdata") else []
    if inner != want_inner:
        bad.append(f"contained procedures: declared {want_inner}, reported {inner}")
    if f["inner"] == 2 and kind in ("module", "submodule") and inner == ["in1"]:
        in2 = [x["name"] for x in u["procedures"][0].get("procedures", [])]
        if in2 != ["in2"]:
            bad.append(f"procedures inside in1: declared ['in2'], reported {in2}")
    return bad, files["case.f90"]


# =============================================================== type slice
def render_type(f, sp):
    up, dc = sp["upper"], sp["dcolon"]
    attrs = []
    if f["extends"]:
        attrs.append(f"{K('extends', up)}(base)")
    if f["abstract"]:
        attrs.append(K("abstract", up))
    if f["bindc"]:
        attrs.append(f"{K('bind', up)}(c)")
    if f["access"] != "none":
        attrs.append(K(f["access"], up))
    head = K("type", up) + "".join(", " + a for a in attrs) + ((" :: " if (dc or attrs) else " ") + "tt")
    L = ["module m", "  implicit none", "  type :: base", "    integer :: b0", "  end type base",
         "  abstract interface", "    subroutine dproc(self)", "      import :: tt", "      class(tt) :: self", "    end subroutine dproc", "  end interface",
         "  " + head]
    if f["sequence"]:
        L.append("    " + K("sequence", up))
    if f["privcomp"]:
        L.append("    " + K("private", up))
    for i in range(f["ncomp"]):
        L.append(f"    {K('integer', up)}{'' if not dc else ' ::'} c{i}" if not dc else f"    {K('integer', up)} :: c{i}")
    has_contains = f["nbind"] or f["deferred"] or f["generic"] or f["final"]
    procs = []
    if has_contains:
        L.append("  " + K("contains", up))
        for i in range(f["nbind"]):
            if f["renamed"] and i == 0:
                L.append(f"    {K('procedure', up)} :: b{i} => impl{i}")
                procs.append(f"impl{i}")
            else:
                L.append(f"    {K('procedure', up)}{' ::' if dc else ''} b{i}")
                procs.append(f"b{i}")
        if f["deferred"]:
            L.append(f"    {K('procedure', up)}(dproc), {K('deferred', up)} :: dd")
        if f["generic"]:
            L.append(f"    {K('generic', up)} :: gg => " + ", ".join(f"b{i}" for i in range(f["nbind"])))
        if f["final"]:
            L.append(f"    {K('final', up)} :: fin")
    L.append("  " + K("end type", up) + " tt")
    L.append("contains")
    for pn in procs:
        L += [f"  subroutine {pn}(self)", "    class(tt) :: self", f"  end subroutine {pn}"]
    if f["final"]:
        L += ["  subroutine fin(self)", "    type(tt) :: self", "  end subroutine fin"]
    L += ["  subroutine keep()", "  end subroutine keep", "end module m"]
    return "\n".join(L) + "\n"


def eval_type(case):
    f, sp = case["facts"], case["spelling"]
    src = relayout(render_type(f, sp), sp.get("layout", "plain"))
    try:
        p = fordrun.project({"case.f90": src})
    except Exception as ex:
        return [f"FORD failed: {type(ex).__name__}: {ex}"], src
    if not p.modules:
        return ["module m not reported (file rejected)"], src
    t = tree.unit(p.modules[0], "module")
    names = [x["name"] for x in t["types"]]
    if sorted(names) != ["base", "tt"]:
        return [f"types reported {names}, declared ['base', 'tt']"], src
    tt = next(x for x in t["types"] if x["name"] == "tt")
    bad = []
    if tt["extends"] != ("base" if f["extends"] else None):
        bad.append(f"extends: declared {'base' if f['extends'] else None}, reported {tt['extends']}")
    want_attr = sorted((["abstract"] if f["abstract"] else []) + (["bind(c)"] if f["bindc"] else []))
    if tt["attribs"] != want_attr:
        bad.append(f"attributes: declared {want_attr}, reported {tt['attribs']}")
    if tt["sequence"] != f["sequence"]:
        bad.append(f"sequence: declared {f['sequence']}, reported {tt['sequence']}")
    comps = [c["name"] for c in tt["components"]]
    if comps != [f"c{i}" for i in range(f["ncomp"])]:
        bad.append(f"components: declared {[f'c{i}' for i in range(f['ncomp'])]}, reported {comps}")
    for c in tt["components"]:
        if c["type"] != "integer":
            bad.append(f"component {c['name']}: declared integer, reported {c['type']}")
        want_perm = "private" if f["privcomp"] else "public"
        if c["perm"] != want_perm:
            bad.append(f"component {c['name']}: declared {want_perm}, reported {c['perm']}")
    want_b = {}
    for i in range(f["nbind"]):
        want_b[f"b{i}"] = {"generic": False, "deferred": False, "bindings": [f"impl{i}" if (f["renamed"] and i == 0) else f"b{i}"]}
    if f["deferred"]:
        want_b["dd"] = {"generic": False, "deferred": True, "proto": "dproc"}
    if f["generic"]:
        want_b["gg"] = {"generic": True, "deferred": False, "bindings": [f"b{i}" for i in range(f["nbind"])]}
    got_b = {b["name"]: b for b in tt["bindings"]}
    if sorted(got_b) != sorted(want_b) or len(tt["bindings"]) != len(want_b):
        bad.append(f"bindings: declared {sorted(want_b)}, reported {[b['name'] for b in tt['bindings']]}")
    else:
        for n, w in want_b.items():
            for k, v in w.items():
                if got_b[n].get(k) != v:
                    bad.append(f"binding {n}.{k}: declared {v!r}, reported {got_b[n].get(k)!r}")
    if tt["finals"] != (["fin"] if f["final"] else []):
        bad.append(f"finalisers: declared {['fin'] if f['final'] else []}, reported {tt['finals']}")
    want_perm = f["access"] if f["access"] != "none" else "public"
    if tt["perm"] != want_perm:
        bad.append(f"accessibility: declared {want_perm}, reported {tt['perm']}")
    return bad, src


# =============================================================== interface slice
def render_iface(f, sp):
    up = sp["upper"]
    k, n = f["kind"], f["n"]
    L = ["module m", "  implicit none"]
    procs = []
    if k == "generic_modproc":
        L += [f"  {K('interface', up)} gen"] + [f"    {K('module procedure', up)} s{i}" for i in range(n)] + [f"  {K('end interface', up)} gen"]
        procs = [(f"s{i}", "integer" if i == 0 else "real") for i in range(n)]
    elif k == "generic_body":
        L += [f"  {K('interface', up)} gen"]
        for i in range(n):
            L += [f"    {K('subroutine', up)} ext{i}(a)", f"      {('integer', 'real')[i % 2]} :: a", f"    {K('end subroutine', up)} ext{i}"]
        L += [f"  {K('end interface', up)}"]
    elif k == "operator":
        L += [f"  {K('interface operator', up)}(.op.)"] + [f"    {K('module procedure', up)} f{i}" for i in range(n)] + [f"  {K('end interface', up)}"]
    elif k == "assignment":
        L += [f"  {K('interface assignment', up)}(=)"] + [f"    {K('module procedure', up)} a{i}" for i in range(n)] + [f"  {K('end interface', up)}"]
    elif k == "abstract":
        L += [f"  {K('abstract interface', up)}"]
        for i in range(n):
            L += [f"    {K('function', up)} ai{i}(x) {K('result', up)}(r)", "      real :: x", "      real :: r", f"    {K('end function', up)} ai{i}"]
        L += [f"  {K('end interface', up)}"]
    elif k == "explicit":
        L += [f"  {K('interface', up)}"]
        for i in range(n):
            L += [f"    {K('subroutine', up)} ex{i}(x)", "      real :: x", f"    {K('end subroutine', up)} ex{i}"]
        L += [f"  {K('end interface', up)}"]
    elif k == "enum":
        L += [f"  {K('enum', up)}, {K('bind', up)}(c)", f"    {K('enumerator', up)} :: red = 1, green"] + ([f"    {K('enumerator', up)} blue"] if n == 2 else []) + [f"  {K('end enum', up)}"]
    elif k == "common1":
        L += ["  integer :: c1, c2", f"  {K('common', up)} /blk/ c1, c2"]
    elif k == "common2":
        L += ["  integer :: c1, c2, c3", f"  {K('common', up)} /blk/ c1, c2 /other/ c3"]
    elif k == "commonblank":
        L += ["  integer :: c1, c2", f"  {K('common', up)} c1, c2"]
    elif k == "namelist":
        L += ["  integer :: n1, n2", f"  {K('namelist', up)} /nl/ n1, n2"]
    L.append("contains")
    for pn, ty in procs:
        L += [f"  subroutine {pn}(a)", f"    {ty} :: a", f"  end subroutine {pn}"]
    if k == "operator":
        for i in range(n):
            L += [f"  function f{i}(a, b) result(r)", f"    {('integer', 'real')[i % 2]}, intent(in) :: a, b", "    logical :: r", "    r = .true.", f"  end function f{i}"]
    if k == "assignment":
        for i in range(n):
            L += [f"  subroutine a{i}(l, r)", f"    {('integer', 'real')[i % 2]}, intent(out) :: l", "    logical, intent(in) :: r", "    l = 1", f"  end subroutine a{i}"]
    L += ["  subroutine keep()", "  end subroutine keep", "end module m"]
    return "\n".join(L) + "\n"


def eval_iface(case):
    f, sp = case["facts"], case["spelling"]
    src = relayout(render_iface(f, sp), sp.get("layout", "plain"))
    k, n = f["kind"], f["n"]
    try:
        p = fordrun.project({"case.f90": src})
    except Exception as ex:
        return [f"FORD failed: {type(ex).__name__}: {ex}"], src
    if not p.modules:
        return ["module m not reported (file rejected)"], src
    t = tree.unit(p.modules[0], "module")
    bad = []
    ifs = t.get("interfaces", [])
    ais = t.get("absinterfaces", [])
    if k in ("generic_modproc", "operator", "assignment"):
        name = {"generic_modproc": "gen", "operator": "operator(.op.)", "assignment": "assignment(=)"}[k]
        pre = {"generic_modproc": "s", "operator": "f", "assignment": "a"}[k]
        if [i["name"] for i in ifs] != [name]:
            bad.append(f"interfaces: declared [{name}], reported {[i['name'] for i in ifs]}")
        elif ifs[0].get("modprocs") != sorted(f"{pre}{i}" for i in range(n)):
            bad.append(f"module procedures of {name}: declared {[f'{pre}{i}' for i in range(n)]}, reported {ifs[0].get('modprocs')}")
    elif k == "generic_body":
        if [i["name"] for i in ifs] != ["gen"]:
            bad.append(f"interfaces: declared ['gen'], reported {[i['name'] for i in ifs]}")
        elif sorted(x["name"] for x in ifs[0].get("procedures", [])) != [f"ext{i}" for i in range(n)]:
            bad.append(f"interface bodies of gen: declared {[f'ext{i}' for i in range(n)]}, reported {[x['name'] for x in ifs[0].get('procedures', [])]}")
    elif k == "abstract":
        got = sorted(a["procedure"]["name"] for a in ais if "procedure" in a)
        if got != [f"ai{i}" for i in range(n)] or ifs:
            bad.append(f"abstract interfaces: declared {[f'ai{i}' for i in range(n)]}, reported {got} (+ {len(ifs)} other interfaces)")
        for a in ais:
            pr = a.get("procedure", {})
            if pr.get("proctype") != "function" or [x["name"] for x in pr.get("args", [])] != ["x"] or (pr.get("result") or {}).get("name") != "r":
                bad.append(f"abstract interface {pr.get('name')}: declared function (x) result(r), reported {pr.get('proctype')} {[x['name'] for x in pr.get('args', [])]}")
    elif k == "explicit":
        got = sorted(a["procedure"]["name"] for a in ifs if "procedure" in a)
        if got != [f"ex{i}" for i in range(n)] or ais:
            bad.append(f"explicit interfaces: declared {[f'ex{i}' for i in range(n)]}, reported {got}")
    elif k == "enum":
        en = t.get("enums", [])
        want = [("red", "1"), ("green", "2")] + ([("blue", "3")] if n == 2 else [])
        got = [(e["name"], e["value"]) for e in en[0]["enumerators"]] if len(en) == 1 else None
        if got != want:
            bad.append(f"enumerators: declared {want}, reported {got}")
    elif k.startswith("common"):
        cm = {c["name"]: c["variables"] for c in t.get("common", [])}
        want = {"common1": {"blk": ["c1", "c2"]}, "common2": {"blk": ["c1", "c2"], "other": ["c3"]}, "commonblank": {"": ["c1", "c2"]}}[k]
        if cm != want or len(t.get("common", [])) != len(want):
            bad.append(f"common blocks: declared {want}, reported {cm}")
        left = [v["name"] for v in t["variables"]]
        if left:
            bad.append(f"variables {left} reported both in the common block and as module variables")
    elif k == "namelist":
        nl = {c["name"]: c["variables"] for c in t.get("namelists", [])}
        if nl != {"nl": ["n1", "n2"]}:
            bad.append(f"namelists: declared {{'nl': ['n1', 'n2']}}, reported {nl}")
    # nothing undeclared: the module procedures are exactly the implementations + keep
    return bad, src


# =============================================================== multi-entity declarations
MULTI_INIT = {"integer": "7", "real": "2.5", "character": "'a,b  c'"}


def render_multi(f, sp):
    up, tight, dc = sp["upper"], sp["tight"], sp["dcolon"]
    b = f["base"]
    ts = K(b, up)
    if f["typelen"] == "kind":
        ts += ({"integer": "(8)", "real": f"({K('kind', up)}=8)", "character": f"({K('len', up)}=10)"}[b])
    attrs = [f"{K('dimension', up)}(4)"] if f["attrdim"] != "none" else []
    names = []
    for i, e in enumerate(f["ents"]):
        t = f"v{i}" + {"none": "", "d3": "(3)", "d22": "(2,2)" if tight else "(2, 2)"}[e["dims"]]
        if e["clen"] == "star5":
            t += "*5"
        elif e["clen"] == "starparen":
            t += "*(5)"
        if e["init"] == "value":
            t += (" = " if not tight else "=") + MULTI_INIT[b]
        names.append(t)
    sep = "," if tight else ", "
    head = ts + "".join(", " + a for a in attrs) + (" :: " if dc else " ")
    if sp.get("semi"):
        decl = ("; " if not tight else ";").join(head + nm for nm in names)
    else:
        decl = head + sep.join(names)
    return "module m\n  implicit none\n  " + decl + "\nend module m\n"


def eval_multi(case):
    f, sp = case["facts"], case["spelling"]
    src = relayout(render_multi(f, sp), sp.get("layout", "plain"))
    try:
        p = fordrun.project({"case.f90": src})
    except Exception as ex:
        return [f"FORD failed: {type(ex).__name__}: {ex}"], src
    if not p.modules:
        return ["module m not reported (file rejected)"], src
    t = tree.unit(p.modules[0], "module")
    got = t["variables"]
    want_names = [f"v{i}" for i in range(len(f["ents"]))]
    if [v["name"] for v in got] != want_names:
        return [f"variables: declared {want_names}, reported {[v['name'] for v in got]}"], src
    bad = []
    b = f["base"]
    for v, e in zip(got, f["ents"]):
        exp = {"type": b, "kind": None, "len": None,
               "dims": {"none": "(4)" if f["attrdim"] != "none" else "", "d3": "(3)", "d22": "(2,2)"}[e["dims"]],
               "initial": tree._squash_code(MULTI_INIT[b]) if e["init"] == "value" else None}
        if b == "character":
            exp["len"] = "5" if e["clen"] == "star5" else ("(5)" if e["clen"] == "starparen" else ("10" if f["typelen"] == "kind" else "1"))
        elif f["typelen"] == "kind":
            exp["kind"] = "8"
        for k, w in exp.items():
            g = v.get(k)
            if g != w:
                bad.append(f"{v['name']}.{k}: declared {w!r}, FORD reports {g!r}")
    return bad, src


# =============================================================== procedure headings
RES_SPELL = {"integer": ("integer", {"type": "integer"}), "realparen": ("real(8)", {"type": "real", "kind": "8"}), "realstar": ("real*8", {"type": "real", "kind": "8"}),
             "realkind": ("real(kind=8)", {"type": "real", "kind": "8"}), "double": ("double precision", {"type": "doubleprecision"}),
             "char5": ("character(len=5)", {"type": "character", "len": "5"}), "charstar": ("character*7", {"type": "character", "len": "7"}),
             "charlenkind": ("character(len=5, kind=1)", {"type": "character", "len": "5", "kind": "1"}), "typet": ("type(tt)", {"type": "type", "proto": "tt"}),
             "logical": ("logical", {"type": "logical"})}


def render_head(f, sp):
    up, tf = sp["upper"], sp["typefirst"]
    kind = f["kind"]
    pre = [K(x, up) for x in sorted(f["prefix"])]
    args = ["aa"][: f["nargs"]]
    arglist = f"({', '.join(args)})" if (args or kind == "function" or f["bindc"] != "none") else ""
    words = list(pre)
    inner = []
    if kind == "function" and f["restype"] != "decl":
        rs = RES_SPELL[f["restype"]][0]
        rs = rs.upper() if up else rs
        rs = rs.replace("TT", "tt")
        words = ([rs] + words) if tf else (words + [rs])
    head = " ".join(words + [K(kind, up), "pp" + arglist])
    rname = "pp"
    if kind == "function" and f["resclause"]:
        head += f" {K('result', up)}(rr)"
        rname = "rr"
    if f["bindc"] == "plain":
        head += f" {K('bind', up)}(c)"
    elif f["bindc"] == "named":
        head += f" {K('bind', up)}(c, {K('name', up)}=\"c_pp\")"
    if kind == "function" and f["restype"] == "decl":
        inner.append(f"integer :: {rname}")
    inner += [f"real :: {a}" for a in args]
    L = ["module m", "  implicit none", "  type :: tt", "    integer :: i", "  end type tt", "contains", "  " + head] + ["    " + x for x in inner] + [f"  {K('end ' + kind, up)} pp", "end module m"]
    return "\n".join(L) + "\n"


def eval_head(case):
    f, sp = case["facts"], case["spelling"]
    src = relayout(render_head(f, sp), sp.get("layout", "plain"))
    try:
        p = fordrun.project({"case.f90": src})
    except Exception as ex:
        return [f"FORD failed: {type(ex).__name__}: {ex}"], src
    if not p.modules:
        return ["module m not reported (file rejected)"], src
    t = tree.unit(p.modules[0], "module")
    procs = t["procedures"]
    if [x["name"] for x in procs] != ["pp"]:
        return [f"procedures: declared ['pp'], reported {[x['name'] for x in procs]}"], src
    u = procs[0]
    bad = []
    if u["proctype"] != f["kind"]:
        bad.append(f"kind: declared {f['kind']}, reported {u['proctype']}")
    if sorted(u["attribs"]) != sorted(f["prefix"]):
        bad.append(f"prefixes: declared {sorted(f['prefix'])}, reported {u['attribs']}")
    if [a["name"] for a in u["args"]] != ["aa"][: f["nargs"]]:
        bad.append(f"arguments: declared {['aa'][: f['nargs']]}, reported {[a['name'] for a in u['args']]}")
    for a in u["args"]:
        if a.get("type") != "real":
            bad.append(f"argument {a['name']}: declared real, reported {a.get('type')}")
    wantb = {"none": None, "plain": "c", "named": 'c,name="c_pp"'}[f["bindc"]]
    gotb = u["bindC"]
    if (gotb or None) != wantb:
        bad.append(f"bind: declared {wantb!r}, reported {gotb!r}")
    if f["kind"] == "function":
        r = u.get("result") or {}
        wantname = "rr" if f["resclause"] else "pp"
        if r.get("name") != wantname:
            bad.append(f"result: declared {wantname}, reported {r.get('name')}")
        exp = {"type": "integer", "kind": None, "len": None, "proto": None}
        if f["restype"] != "decl":
            exp.update(RES_SPELL[f["restype"]][1])
        if exp["type"] == "character" and exp["len"] is None:
            exp["len"] = "1"
        for k, w in exp.items():
            if r.get(k) != w:
                bad.append(f"result.{k}: declared {w!r}, FORD reports {r.get(k)!r}")
    if u.get("variables"):
        bad.append(f"local variables {[v['name'] for v in u['variables']]} reported, none declared beyond arguments / result")
    return bad, src


EVAL = {"decl": eval_decl, "unit": eval_unit, "type": eval_type, "iface": eval_iface, "multi": eval_multi, "head": eval_head}


def evaluate(case):
    bad, src = EVAL[case["slice"]](case)
    return {"bad": bad, "src": src if bad else None}


def _parse(args):
    sl, block = args
    if '/\\ phase = "done"' not in block:
        return None
    st = tlaval.parse_state(block)

    def conv(v):
        if isinstance(v, dict):
            return {k: conv(x) for k, x in v.items()}
        if isinstance(v, frozenset):
            return sorted(v)
        if isinstance(v, tuple):
            return [conv(x) for x in v]
        return v
    facts = conv(st["facts"])
    if sl == "decl" and not isinstance(facts.get("place"), dict):
        facts["place"] = {}
    return {"slice": sl, "facts": facts, "spelling": conv(st["spelling"])}


def known(case, b, ck):
    return False


def run(tier, seed, ck: Check):
    big = tier == "thorough"
    scratch = tlc.scratch_dir("verif-c01-")
    cases = []
    try:
        mod, cfg = tlc.make_model(scratch, "Program", {"Slice": "decl"}, name="MCvac", spec="Spec", invariants=["NeverStmtForm"])
        if tlc.run(mod, cfg, workers=4, timeout=600).ok:
            raise tlc.TLCFailure("vacuity guard NeverStmtForm not violated")
        for sl in SLICES:
            mod, cfg = tlc.make_model(scratch, "Program", {"Slice": sl}, name=f"MC{sl}", spec="Spec", invariants=["SpellingIndependence"])
            dump = os.path.join(scratch, f"gen{sl}")
            r = tlc.run(mod, cfg, workers=16, dump=dump, timeout=1800)
            if not r.ok:
                raise tlc.TLCFailure(f"Program[{sl}]: {r.violated} violated")
            cs = [c for c in pool.pmap(_parse, [(sl, b) for b in tlc.read_dump_blocks(r.dump_file)], chunksize=2000) if c]
            os.remove(r.dump_file)
            ck.coverage["states"] = ck.coverage.get("states", 0) + r.distinct
            ck.coverage["transitions"] = ck.coverage.get("transitions", 0) + r.generated
            ck.coverage.setdefault("slices", {})[sl] = len(cs)
            cases += cs
    finally:
        shutil.rmtree(scratch, ignore_errors=True)
    if not big:
        keep = []
        for c in cases:
            h = zlib.crc32(json.dumps(c, sort_keys=True).encode())
            div = {"decl": 24, "unit": 3, "type": 12, "iface": 1, "multi": 6, "head": 3}[c["slice"]]
            if h % div == seed % div:
                keep.append(c)
        cases = keep
    for c, r_ in zip(cases, pool.pmap(evaluate, cases, chunksize=50)):
        ck.count()
        ck.nontrivial_case(json.dumps([c["slice"], c["facts"]], sort_keys=True))
        for b in r_["bad"][:3]:
            if known(c, b, ck):
                continue
            ck.violation(c["slice"], {"slice": c["slice"], "facts": c["facts"], "spelling": c["spelling"]}, detail=f"[{c['slice']}] {b}", extra={"source": r_["src"]})
    ck.coverage["traces_validated_against_impl"] = 0
    rend = {"decl": lambda c: relayout(render_decl(c["facts"], c["spelling"]["upper"], c["spelling"].get("ctor", "bracket"))[0], c["spelling"].get("layout", "plain")), "unit": lambda c: render_unit(c["facts"], c["spelling"])["case.f90"],
            "type": lambda c: render_type(c["facts"], c["spelling"]), "iface": lambda c: render_iface(c["facts"], c["spelling"]),
            "multi": lambda c: render_multi(c["facts"], c["spelling"]), "head": lambda c: render_head(c["facts"], c["spelling"])}
    for sl in SLICES:
        ex = next((c for c in cases if c["slice"] == sl), None)
        if ex:
            ck.sample({"slice": sl, "facts": ex["facts"], "spelling": ex["spelling"], "source": rend[sl](ex)}, limit=len(SLICES))
    ck.assumptions += [
        "generated constructs are valid Fortran of the supported subset (well-formedness is the enabling condition in spec/Program.tla); implicit typing only for undeclared dummy arguments",
        "kind value 8 / length 10 are used for every spelling of a kind / length parameter, so equivalent spellings have one expected value",
        "type keywords compared lower-case with blanks removed (double precision = doubleprecision); blanks outside character literals are not significant in initial values, blanks inside them are",
    ]


def replay_file(path, ck):
    rec = json.load(open(path))
    c = rec["case"]
    r_ = evaluate(c)
    ck.count(); ck.nontrivial_case("r1"); ck.nontrivial_case("r2")
    ck.sample({"case": c, "problems": r_["bad"]})
    for b in r_["bad"][:3]:
        ck.violation(c["slice"], c, detail=b, extra={"source": r_["src"]})


def main():
    a = common.args()
    ck = Check(PROP, "exploration", a.tier, a.seed)
    try:
        if a.replay:
            replay_file(a.replay, ck)
        else:
            run(a.tier, a.seed, ck)
    except tlc.TLCFailure as e:
        return machinery_failure(PROP, str(e))
    return ck.finish(rule="cases = every well-formed construct of the four slices of spec/Program.tla (declarations: 9 base types x kind/length spellings x "
                          "<=2 attributes each on the declaration or as statement x dimension forms x initial values x role; units: 6 kinds x arguments x "
                          "result forms x prefixes x contained procedures x 5 END spellings; types; interface blocks, enum, common, namelist) x letter case; "
                          "every case is non-trivial and distinct by its declared facts", exhaustive=(a.tier == "thorough"))


if __name__ == "__main__":
    sys.exit(main())
