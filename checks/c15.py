#!/venv/bin/python
"""C15 - options mean the same in every configuration format, with CLI precedence.

Spec: spec/Settings.tla (precedence cli > --config > project file > default; independence of format and
working directory).  TLC enumerates the configuration cases per option type class; the harness maps every
field of ford.settings.ProjectSettings (read from the dataclass, so new options are picked up) to its
class, writes each case as Markdown metadata or fpm.toml, as --config and as command-line flag in the
format's natural typed syntax, runs ford.load_settings + ford.parse_arguments from two working
directories, and compares the resulting setting with the winner's value.
"""
from __future__ import annotations
import contextlib
import dataclasses
import io
import json
import os
import pathlib
import shutil
import sys
import typing
import zlib

sys.path.insert(0, os.path.dirname(os.path.abspath(__file__)))
import common  # noqa: E402
from vlib import tlc, tlaval, pool, fordrun  # noqa: E402
from vlib.verdict import Check, machinery_failure, load_known  # noqa: E402

PROP = "C15"

# options whose value is interpreted / validated in ways that need real resources or that are derived
SKIP = {"directory", "relative", "creation_date", "year", "preprocess", "preprocessor", "fpp_extensions", "md_extensions",
        "extensions", "fixed_extensions", "license", "doc_license", "gitter_sidecar", "parallel", "encoding",
        "docmark", "predocmark", "docmark_alt", "predocmark_alt", "project_url", "quiet", "dbg", "html_template_dir", "favicon"}
CLI_FLAG = {"src_dir": "-d", "page_dir": "-p", "output_dir": "-o", "css": "-s", "revision": "-r", "exclude": "--exclude", "exclude_dir": "--exclude_dir",
            "macro": "-m", "include": "-I", "external": "-L", "warn": "--warn", "force": "--force", "graph": "--graph", "search": "--no-search",
            "externalize": "--externalize"}


def classify():
    import ford.settings as fs
    hints = typing.get_type_hints(fs.ProjectSettings)
    out = {}
    for f in dataclasses.fields(fs.ProjectSettings):
        if f.name in SKIP:
            continue
        t = hints[f.name]
        if fs.is_same_type(t, bool):
            c = "flag"
        elif fs.is_same_type(t, int):
            c = "int"
        elif fs.is_same_type(t, str):
            c = "str"
        elif fs.is_same_type(t, pathlib.Path):
            c = "path"
        elif fs.is_same_type(t, typing.List[pathlib.Path]):
            c = "pathlist"
        elif fs.is_same_type(t, typing.List[str]) or t is list:
            c = "strlist"
        elif typing.get_origin(t) is dict and typing.get_args(t)[1] is fs.ExtraFileType:
            c = "filetypes"
        elif typing.get_origin(t) is dict:
            c = "table"
        else:
            c = "other:" + str(t)
        out[f.name] = c
    return out


# ---------------------------------------------------------------- concrete values per class and source
def value(cls, opt, src):
    """Abstract value of `src` in {file, config, cli} for option `opt`, as the typed Python value FORD must end up with
    (paths relative to the project directory as strings, resolved later)."""
    tag = {"file": "a", "config": "b", "cli": "c"}[src]
    if cls == "flag":
        if src == "cli":
            return opt != "search"            # store_true flags, --no-search is store_false
        default = {"search": True, "incl_src": True, "fixed_length_limit": True}.get(opt, False)
        return (not default) if src == "file" else default
    if cls == "int":
        return {"file": 3, "config": 5, "cli": 7}[src]
    if cls == "str":
        if opt == "sort":
            return {"file": "alpha", "config": "type", "cli": "permission"}[src]
        if opt == "display":
            return None
        if opt in ("summary", "author_description"):
            return f"value-{tag} of {opt}\nhttps://example.org/{tag}: second line"      # a multi-line text value
        return f"value-{tag} of {opt}"
    if cls == "path":
        return f"./dir_{tag}/{opt}_{tag}"
    if cls == "pathlist":
        return [f"./dir_{tag}/{opt}_{tag}1", f"./dir_{tag}/{opt}_{tag}2"]
    if cls == "strlist":
        if opt == "display":
            return {"file": ["public", "private"], "config": ["private"], "cli": ["protected"]}[src]
        return [f"{opt}_{tag}1", f"{opt}_{tag}2"]
    if cls == "table":
        if opt == "extra_mods":
            return {f"mod_{tag}1": f"http://example.org/{tag}1", f"mod_{tag}2": f"http://example.org/{tag}2"}
        return {f"key_{tag}1": f"text {tag}1", f"key_{tag}2": f"text {tag}2"}
    if cls == "filetypes":
        return {f"x{tag}": (f"x{tag}", "#", None), f"y{tag}": (f"y{tag}", "//", "c_cpp.CLexer")}
    raise ValueError(cls)


def md_lines(opt, cls, v):
    if cls == "flag":
        return [f"{opt}: {'true' if v else 'false'}"]
    if cls == "str" and "\n" in str(v):
        first, *rest = str(v).split("\n")
        return [f"{opt}: {first}"] + [f"    {x}" for x in rest]
    if cls in ("int", "str", "path"):
        return [f"{opt}: {v}"]
    if cls in ("strlist", "pathlist"):
        return [f"{opt}: {v[0]}"] + [f"    {x}" for x in v[1:]]
    if cls == "table":
        sep = ":" if opt in ("extra_mods", "extra_vartypes") else "="
        items = [f"{k}{sep} {x}" if sep == ":" else f"{k} {sep} {x}" for k, x in v.items()]
        return [f"{opt}: {items[0]}"] + [f"    {x}" for x in items[1:]]
    if cls == "filetypes":
        # columns aligned with several blanks (as the user guide writes them) / separated by a tab
        seps = ["   ", "\t", " "]
        items = [seps[k % 3].join(str(p) for p in t if p) for k, t in enumerate(v.values())]
        return [f"{opt}: {items[0]}"] + [f"    {x}" for x in items[1:]]
    raise ValueError(cls)


def toml_value(cls, v):
    q = lambda s: json.dumps(str(s))
    if cls == "flag":
        return "true" if v else "false"
    if cls == "int":
        return str(v)
    if cls in ("str", "path"):
        return q(v)
    if cls in ("strlist", "pathlist"):
        return "[" + ", ".join(q(x) for x in v) + "]"
    if cls == "table":
        return "{" + ", ".join(f"{k} = {q(x)}" for k, x in v.items()) + "}"
    if cls == "filetypes":
        return "[" + ", ".join("{" + ", ".join(f"{k} = {q(x)}" for k, x in zip(("extension", "comment", "lexer"), t) if x) + "}" for t in v.values()) + "]"
    raise ValueError(cls)


def cli_args(opt, cls, v):
    flag = CLI_FLAG[opt]
    if cls == "flag":
        return [flag]
    if cls in ("strlist", "pathlist"):
        out = []
        for x in v:
            out += [flag, str(x)]
        return out
    if cls == "table":
        out = []
        for k, x in v.items():
            out += [flag, f"{k} = {x}"]
        return out
    return [flag, str(v)]


def normal(cls, opt, v, projdir):
    """Canonical comparable form of an expected value."""
    if cls == "path":
        return str((pathlib.Path(projdir) / v).resolve())
    if cls == "pathlist":
        return [str((pathlib.Path(projdir) / x).resolve()) for x in v]
    return v


def observed(cls, opt, settings):
    v = getattr(settings, opt)
    if cls == "path":
        return None if v is None else str(v)
    if cls == "pathlist":
        return [str(x) for x in v]
    if cls == "filetypes":
        return {k: (t.extension, t.comment, t.lexer) for k, t in v.items()} if isinstance(v, dict) else repr(v)
    if cls == "table" and isinstance(v, dict):
        return dict(v)
    return v


def run_case(case):
    """case: option, class, fmt, file, cfg, cli, cwd.  Returns problem string or None."""
    import ford
    import ford.settings
    opt, cls = case["opt"], case["cls"]
    with fordrun.tempdir("verif-c15-") as base:
        proj = os.path.join(base, "proj")
        other = os.path.join(base, "elsewhere")
        os.makedirs(proj)
        os.makedirs(other)
        body = "Project text\n"
        vals = {s: value(cls, opt, s) for s in ("file", "config", "cli")}
        meta = [x for x in ("project: c15", "preprocess: false") if not x.startswith(opt + ":")]
        toml = [x for x in ('project = "c15"', "preprocess = false") if not x.startswith(opt + " =")]
        if case["file"]:
            meta += md_lines(opt, cls, vals["file"])
            toml.append(f"{opt} = {toml_value(cls, vals['file'])}")
        if case.get("unknown_key"):
            meta.append("no_such_option_xyz: 1")
            toml.append("no_such_option_xyz = 1")
        if case["fmt"] == "md":
            text = "---\n" + "\n".join(meta) + "\n---\n\n" + body
            if zlib.crc32(json.dumps([opt, case["file"], case["cfg"], case["cli"]]).encode()) % 2 == 0:
                # an fpm.toml of the package manager that other tools use, too, but that says nothing to FORD: the project file rules
                with open(os.path.join(proj, "fpm.toml"), "w") as f:
                    f.write('name = "c15"\nversion = "0.1.0"\n\n[extra.fortitude.check]\nselect = ["C001"]\n')
        else:
            text = body
            with open(os.path.join(proj, "fpm.toml"), "w") as f:
                f.write('name = "c15"\n\n[extra.ford]\n' + "\n".join(toml) + "\n")
        pf = os.path.join(proj, "proj.md")
        with open(pf, "w") as f:
            f.write(text)
        argv = ["ford", pf]
        if case["cfg"]:
            argv += ["--config", f"{opt} = {toml_value(cls, vals['config'])}"]
        if case["cli"]:
            argv += cli_args(opt, cls, vals["cli"])
        cwd0 = os.getcwd()
        os.chdir(proj if case["cwd"] == "project" else other)
        old_argv = sys.argv
        sys.argv = argv
        buf = io.StringIO()
        try:
            with contextlib.redirect_stdout(buf), contextlib.redirect_stderr(buf):
                settings, _docs = ford.initialize()
        except SystemExit as ex:
            return {"problem": f"FORD exited ({ex.code}): {buf.getvalue()[-200:]}", "argv": argv[2:], "text": text}
        except Exception as ex:  # noqa: BLE001
            return {"problem": f"FORD raised {type(ex).__name__}: {ex}", "argv": argv[2:], "text": text}
        finally:
            sys.argv = old_argv
            os.chdir(cwd0)
        winner = case["winner"]
        if winner == "default":
            exp = None
            dflt = ford.settings.ProjectSettings()
            got = observed(cls, opt, settings)
            # default paths are anchored like any other; compare only non-path defaults
            if cls not in ("path", "pathlist") and opt not in ("extra_mods", "exclude_dir") and got != observed(cls, opt, dflt):
                return {"problem": f"{opt}: nothing sets it but the value is {got!r}, default {observed(cls, opt, dflt)!r}", "argv": argv[2:], "text": text}
        else:
            exp = normal(cls, opt, vals[winner], proj)
            got = observed(cls, opt, settings)
            ok = got == exp
            if opt == "extra_mods" and isinstance(got, dict) and isinstance(exp, dict):
                ok = all(got.get(k) == x for k, x in exp.items())        # plus the intrinsic modules FORD always adds
            if opt == "exclude_dir" and isinstance(got, list):
                ok = got[:len(exp)] == exp                                 # FORD appends the output directory
            if not ok:
                return {"problem": f"{opt} ({cls}): {winner} value expected {exp!r}, effective {got!r}", "argv": argv[2:], "text": text}
        if case.get("unknown_key") and "no_such_option_xyz" not in buf.getvalue():
            return {"problem": f"unknown key not reported: {buf.getvalue()[-200:]!r}", "argv": argv[2:], "text": text}
    return None


def run_illtyped(args):
    """Ill-typed values must be rejected with a message naming the option."""
    import ford
    opt, fmt, bad = args
    with fordrun.tempdir("verif-c15-") as base:
        pf = os.path.join(base, "proj.md")
        if fmt == "md":
            text = f"---\nproject: c15\npreprocess: false\n{opt}: {bad}\n---\n\ntext\n"
        else:
            text = "text\n"
            with open(os.path.join(base, "fpm.toml"), "w") as f:
                f.write(f'name = "c15"\n\n[extra.ford]\npreprocess = false\n{opt} = {json.dumps(bad)}\n')
        open(pf, "w").write(text)
        old, cwd0 = sys.argv, os.getcwd()
        sys.argv = ["ford", pf]
        os.chdir(base)
        buf = io.StringIO()
        try:
            with contextlib.redirect_stdout(buf), contextlib.redirect_stderr(buf):
                settings, _ = ford.initialize()
            return {"opt": opt, "fmt": fmt, "outcome": "accepted", "value": repr(getattr(settings, opt))}
        except SystemExit as ex:
            msg = str(ex.code) + buf.getvalue()
        except Exception as ex:  # noqa: BLE001
            msg = f"{type(ex).__name__}: {ex}" + buf.getvalue()
        finally:
            sys.argv = old
            os.chdir(cwd0)
        return {"opt": opt, "fmt": fmt, "outcome": "rejected", "names_option": opt in msg, "msg": msg[-200:]}


def _parse_block(block):
    if '/\\ phase = "done"' not in block:
        return None
    st = tlaval.parse_state(block)
    c = dict(st["case"])
    c["winner"] = st["out"]["winner"]
    return c


def run(tier, seed, ck: Check):
    big = tier == "thorough"
    classes = classify()
    bad_cls = {o: c for o, c in classes.items() if c.startswith("other")}
    if bad_cls:
        raise tlc.TLCFailure(f"unclassified option types: {bad_cls}")
    cli_classes = {classes[o] for o in CLI_FLAG if o in classes}
    scratch = tlc.scratch_dir("verif-c15m-")
    try:
        mod, cfg = tlc.make_model(scratch, "Settings", {"Classes": frozenset(set(classes.values())), "CliClasses": frozenset(cli_classes)},
                                  spec="Spec", invariants=["FormatIndependent", "Precedence"])
        dump = os.path.join(scratch, "gen")
        r = tlc.run(mod, cfg, workers=4, dump=dump, timeout=600)
        if not r.ok:
            raise tlc.TLCFailure(f"Settings: {r.violated} violated")
        abstract = [c for c in map(_parse_block, tlc.read_dump_blocks(r.dump_file)) if c]
        ck.coverage["states"] = r.distinct
        ck.coverage["transitions"] = r.generated
    finally:
        shutil.rmtree(scratch, ignore_errors=True)
    cases = []
    for a in abstract:
        for opt, cls in classes.items():
            if cls != a["cls"]:
                continue
            if a["cli"] and opt not in CLI_FLAG:
                continue
            if value(cls, opt, "file") is None:
                continue
            c = dict(a, opt=opt)
            h = zlib.crc32(json.dumps(c, sort_keys=True).encode())
            c["unknown_key"] = (h >> 4) % 8 == 0
            cases.append(c)
    results = pool.pmap(run_case, cases, chunksize=20)
    known = load_known(PROP)
    for c, r_ in zip(cases, results):
        ck.count()
        if sum((c["file"], c["cfg"], c["cli"])) >= 2:
            ck.nontrivial_case(json.dumps([c["opt"], c["fmt"], c["file"], c["cfg"], c["cli"], c["cwd"]]))
        if r_:
            # C15-F1: values given through --config skip conversion / normalisation (paths not anchored, display not lower-cased, tables of file types not converted)
            if c["winner"] == "config" and c["cls"] in ("path", "pathlist", "filetypes") and ck.known_finding("C15-F1"):
                continue
            ck.violation("setting", {k: c[k] for k in ("opt", "cls", "fmt", "file", "cfg", "cli", "cwd", "winner")},
                         detail=r_["problem"], extra={"argv": r_["argv"], "project_file": r_["text"]})
    # ill-typed values
    ill = []
    for opt, cls in classes.items():
        if cls == "flag":
            ill += [(opt, "md", "maybe"), (opt, "toml", "maybe"), (opt, "md", "tru"), (opt, "md", "f"), (opt, "md", "fals")]
        elif cls == "int":
            ill += [(opt, "md", "many"), (opt, "toml", "many")]
    for r_ in pool.pmap(run_illtyped, ill, chunksize=4):
        ck.count()
        ck.nontrivial_case(json.dumps(["ill", r_["opt"], r_["fmt"]]))
        if r_["outcome"] == "accepted":
            if r_["fmt"] == "toml" and ck.known_finding("C15-F2"):
                continue
            ck.violation("ill-typed-accepted", {"opt": r_["opt"], "fmt": r_["fmt"]}, detail=f"{r_['opt']}: ill-typed value accepted as {r_['value']}")
        elif not r_["names_option"]:
            ck.violation("ill-typed-message", {"opt": r_["opt"], "fmt": r_["fmt"]}, detail=f"{r_['opt']}: rejected, but the message does not name the option: {r_['msg']!r}")
    ck.coverage["options_covered"] = sorted(classes)
    ck.coverage["options_skipped"] = sorted(SKIP)
    ck.coverage["traces_validated_against_impl"] = 0
    ck.sample({"case": cases[0] if cases else None})
    ck.assumptions += [
        "every value is written in the natural typed syntax of its format (TOML arrays / tables / booleans / integers; one item per line and true/false in Markdown metadata)",
        "options that need real resources or are derived are not varied: " + ", ".join(sorted(SKIP)),
        "extra_mods always contains the intrinsic modules in addition; exclude_dir always ends with the output directory",
    ]


def replay_file(path, ck):
    rec = json.load(open(path))
    c = rec["case"]
    ck.count(); ck.nontrivial_case("r1"); ck.nontrivial_case("r2")
    if rec["kind"] == "setting":
        r_ = run_case(dict(c))
        ck.sample({"case": c, "result": r_})
        if r_:
            ck.violation("setting", c, detail=r_["problem"])
    else:
        r_ = run_illtyped((c["opt"], c["fmt"], "maybe"))
        ck.sample({"case": c, "result": r_})
        if r_["outcome"] == "accepted":
            ck.violation(rec["kind"], c, detail=str(r_))


def main():
    a = common.args()
    ck = Check(PROP, "exploration", a.tier, a.seed)
    try:
        if a.replay:
            replay_file(a.replay, ck)
        else:
            run(a.tier, a.seed, ck)
    except tlc.TLCFailure as e:
        return machinery_failure(PROP, str(e))
    return ck.finish(rule="cases = configuration cases of spec/Settings.tla (type class x format {md, toml} x defined in file / --config / CLI flag x working "
                          "directory) x every ProjectSettings field of that class (read from the dataclass); plus ill-typed values per flag/int option; "
                          "non-trivial iff at least two sources define the option; distinct by (option, format, sources, cwd)", exhaustive=(a.tier == "thorough"))


if __name__ == "__main__":
    sys.exit(main())
