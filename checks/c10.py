#!/venv/bin/python
"""C10 - distinct entities never share a page, anchor or copied file.

Spec: spec/Names.tla (NameSelector mechanism, Injective / Stable), spec/Names_Trace.tla.
TLC enumerates multisets of page-bearing entities with related names; each is rendered as a project,
built by the real FORD end to end, and the output tree checked for injectivity; the get_name calls of
every run are validated by TLC against the selector model.
"""
from __future__ import annotations
import collections
import json
import os
import random
import re
import shutil
import sys

sys.path.insert(0, os.path.dirname(os.path.abspath(__file__)))
import common  # noqa: E402
from vlib import tlc, tlaval, pool, fordrun, site  # noqa: E402
from vlib.verdict import Check, machinery_failure, load_known  # noqa: E402

PROP = "C10"
# (dir, name as written) the generator may use; stems as the selector must build them
PAIRS = [("proc", "foo"), ("proc", "Foo"), ("type", "foo"), ("type", "FOO"),
         ("interface", "operator(<)"), ("interface", "OPERATOR(<)"), ("interface", "operator(.lt.)"), ("interface", "assignment(=)"),
         ("interface", "foo"),
         ("module", "io"), ("program", ""), ("program", "main"), ("blockdata", ""),
         ("sourcefile", "util.f90"), ("sourcefile", "Util.f90")]


def stem_key(raw: str) -> str:
    s = raw.lower()
    for a, b in (("<", "lt"), (">", "gt"), ("/", "SLASH"), ("*", "ASTERISK")):
        s = s.replace(a, b)
    return s


def as_built_dev():
    return ("CaseSensitiveCount",) if "C10-F1" in load_known(PROP) else ()


# ---------------------------------------------------------------- rendering
# every project also holds one module whose page shows many items with related names: defined operators that differ only in
# punctuation (as interfaces of the module and as generic bindings of a type), an assignment, a type and its constructor
OPS = (("+", "add"), ("-", "sub"), ("==", "eq"), ("<", "lt"), ("<=", "le"), ("*", "mul"), ("/", "div"))
ANCHOR_FIXTURE = (
    "module anchorfix\n  implicit none\n  type :: vecq\n    !! a type with operator bindings\n    integer :: x\n  contains\n"
    + "".join(f"    procedure :: b{n}\n" for _, n in OPS) + "    procedure :: basg\n"
    + "".join(f"    generic :: operator({o}) => b{n}\n" for o, n in OPS) + "    generic :: assignment(=) => basg\n  end type vecq\n"
    + "".join(f"  interface operator({o})\n    module procedure i{n}\n  end interface\n" for o, n in OPS)
    + "  interface assignment(=)\n    module procedure iasg\n  end interface\n"
    + "  interface vecq\n    module procedure make_vecq\n  end interface\n"
    # a generic interface with two explicit interface bodies (external procedures): two items on the interface's page
    + "  interface axpyq\n    subroutine saxpyq(x)\n      real :: x\n    end subroutine saxpyq\n"
      "    subroutine daxpyq(x)\n      double precision :: x\n    end subroutine daxpyq\n  end interface axpyq\ncontains\n"
    + "".join(f"  function b{n}(p, q) result(r)\n    class(vecq), intent(in) :: p\n    integer, intent(in) :: q\n    {'logical' if n in ('eq', 'lt', 'le') else 'integer'} :: r\n"
              f"    r = {'p%x ' + o + ' q'}\n  end function b{n}\n" for o, n in OPS)
    + "  subroutine basg(p, q)\n    class(vecq), intent(out) :: p\n    integer, intent(in) :: q\n    p%x = q\n  end subroutine basg\n"
    + "".join(f"  function i{n}(p, q) result(r)\n    logical, intent(in) :: p\n    character(len=*), intent(in) :: q\n    logical :: r\n    r = p\n  end function i{n}\n" for o, n in OPS)
    + "  subroutine iasg(p, q)\n    logical, intent(out) :: p\n    character(len=*), intent(in) :: q\n    p = len(q) > 0\n  end subroutine iasg\n"
    + "  function make_vecq(k) result(v)\n    real, intent(in) :: k\n    type(vecq) :: v\n    v%x = int(k)\n  end function make_vecq\n"
    + "end module anchorfix\n")


def render(ents):
    """ents: list of {dir, raw}.  Returns (files, expected entity descriptors)."""
    files = {"zz_anchorfix.f90": ANCHOR_FIXTURE, "zz_limits.inc": "! a non-Fortran file documented through extra_filetypes\n#define NMAX 10\n"}
    expect = []
    seen_module_io = False
    seen_program = set()
    for i, e in enumerate(ents, start=1):
        d, raw = e["dir"], e["raw"]
        trc = f"TRACER{i}X"
        if d == "proc":
            files[f"f{i}.f90"] = f"module hp{i}\ncontains\n  subroutine {raw}()\n    !! {trc}\n  end subroutine {raw}\nend module hp{i}\n"
            expect.append({"i": i, "kind": "proc", "name": raw, "host": f"hp{i}", "tracer": trc})
        elif d == "type":
            # the type also binds one procedure under several names (specific + generic), as real code does
            files[f"f{i}.f90"] = (f"module ht{i}\n  type :: {raw}\n    !! {trc}\n    integer :: c\n  contains\n    procedure :: sa{i}\n    procedure :: sb{i}\n"
                                  f"    generic :: g{i} => sa{i}, sb{i}\n  end type {raw}\ncontains\n"
                                  f"  subroutine sa{i}(self, factor)\n    class({raw}) :: self\n    real :: factor\n  end subroutine sa{i}\n"
                                  f"  subroutine sb{i}(self, factor)\n    class({raw}) :: self\n    integer :: factor\n  end subroutine sb{i}\nend module ht{i}\n")
            expect.append({"i": i, "kind": "type", "name": raw, "host": f"ht{i}", "tracer": trc})
        elif d == "interface":
            low = raw.lower()
            if low.startswith("assignment"):
                impl = f"  subroutine impl{i}(a, b)\n    integer, intent(out) :: a\n    logical, intent(in) :: b\n    a = 1\n  end subroutine impl{i}\n"
            elif low.startswith("operator"):
                impl = f"  function impl{i}(a, b) result(r)\n    logical, intent(in) :: a, b\n    logical :: r\n    r = a\n  end function impl{i}\n"
            else:
                impl = f"  subroutine impl{i}(a)\n    integer :: a\n  end subroutine impl{i}\n"
            files[f"f{i}.f90"] = (f"module hi{i}\n  interface {raw}\n    !! {trc}\n    module procedure impl{i}\n  end interface\ncontains\n{impl}end module hi{i}\n")
            expect.append({"i": i, "kind": "interface", "name": raw, "host": f"hi{i}", "tracer": trc})
        elif d == "module":
            if not seen_module_io:
                seen_module_io = True
                files[f"f{i}.f90"] = f"module {raw}\n  !! {trc}\n  integer :: v{i}\nend module {raw}\n"
                expect.append({"i": i, "kind": "module", "name": raw, "host": None, "tracer": trc})
            else:
                files[f"f{i}.f90"] = (f"module par{i}\n  interface\n    module subroutine ms{i}()\n    end subroutine ms{i}\n  end interface\nend module par{i}\n"
                                      f"submodule (par{i}) {raw}\n  !! {trc}\ncontains\n  module subroutine ms{i}()\n  end subroutine ms{i}\nend submodule {raw}\n")
                expect.append({"i": i, "kind": "submodule", "name": raw, "host": f"par{i}", "tracer": trc})
        elif d == "program":
            if raw and raw.lower() in seen_program:
                raw = f"{raw}{i}"           # program names are global identifiers: only unnamed ones may repeat
            seen_program.add(raw.lower())
            files[f"f{i}.f90"] = f"program {raw}\n  !! {trc}\n  integer :: pv{i}\nend program {raw}\n".replace("program \n", "program\n")
            expect.append({"i": i, "kind": "program", "name": raw, "host": None, "tracer": trc})
        elif d == "blockdata":
            files[f"f{i}.f90"] = f"block data {raw}\n  !! {trc}\n  integer :: bv{i}\n  common /cb{i}/ bv{i}\nend block data {raw}\n".replace("data \n", "data\n")
            expect.append({"i": i, "kind": "blockdata", "name": raw, "host": None, "tracer": trc})
        elif d == "sourcefile":
            files[f"d{i}/{raw}"] = f"!! {trc}\nmodule sfm{i}\n  integer :: sv{i}\nend module sfm{i}\n"
            expect.append({"i": i, "kind": "sourcefile", "name": raw, "host": f"d{i}", "tracer": trc, "path": f"d{i}/{raw}"})
    return files, expect


def find_entity(project, x):
    k = x["kind"]
    if k == "sourcefile":
        return next((f for f in project.files if f.path.replace(os.sep, "/").endswith("/" + x["path"])), None)
    if k == "module":
        return next((m for m in project.modules if m.name == x["name"]), None)
    if k == "submodule":
        return next((m for m in project.submodules if m.name == x["name"]
                     and getattr(m.ancestor_module, "name", m.ancestor_module) == x["host"]), None)
    if k == "program":
        return next((m for m in project.programs if (m.name or "") == x["name"] and x["tracer"] in " ".join(m.doc_list)), None)
    if k == "blockdata":
        return next((m for m in project.blockdata if x["tracer"] in " ".join(m.doc_list)), None)
    host = next((m for m in project.modules if m.name == x["host"]), None)
    if host is None:
        return None
    coll = {"proc": host.subroutines, "type": host.types, "interface": host.interfaces}[k]
    return next((e for e in coll if e.name == x["name"]), None)


REC = []
FIRST, LOGGED, SEEN_CALLS = {}, set(), [0]


def _install_recorder():
    """Harness-side recorder at the public boundary NameSelector.get_name (FORD_VERIF_TRACE=1)."""
    import ford.sourceform as sf
    if getattr(sf.NameSelector, "_verif_wrapped", False):
        return
    orig = sf.NameSelector.get_name

    def wrapped(self, item):
        try:
            ret = orig(self, item)
        except Exception:
            raise
        serial = getattr(item, "_verif_serial", None)
        if serial is None:
            serial = len(getattr(self, "_verif_seen", {})) + 1
            if not hasattr(self, "_verif_seen"):
                self._verif_seen = {}
            self._verif_seen[id(item)] = serial
            try:
                item._verif_serial = serial
            except Exception:
                pass
        # a repeated call that answers as before adds nothing the model could reject (Stable holds trivially): log the first
        # call per entity and every later call whose answer differs
        first_ret = FIRST.setdefault(serial, ret)
        SEEN_CALLS[0] += 1
        if SEEN_CALLS[0] > 1 and first_ret == ret and serial in LOGGED:
            return ret
        LOGGED.add(serial)
        base, _, num = ret.partition("~")
        REC.append({"e": serial, "dir": item.get_dir() or "none", "raw": item.name or "", "key": stem_key(item.name or ""),
                    "ret": ret, "base": base, "n": int(num) if num else 1})
        return ret

    sf.NameSelector.get_name = wrapped
    sf.NameSelector._verif_wrapped = True


def evaluate(case):
    ents = case["ents"]
    files, expect = render(ents)
    problems = []
    os.environ["FORD_VERIF_TRACE"] = "1"
    _install_recorder()
    REC.clear(); FIRST.clear(); LOGGED.clear(); SEEN_CALLS[0] = 0
    with fordrun.tempdir() as d:
        fordrun.write_files(os.path.join(d, "src"), files)
        ok, out, err = site.run_inproc(d, {"incl_src": True, "display": ["public", "private", "protected"], "search": False, "extra_filetypes": "inc !"})
        events = list(REC)
        if not ok:
            return {"problems": [{"kind": "ford-failed", "detail": f"{type(err).__name__}: {err}"}], "events": events, "files": files, "src_collision": False}
        project, docs = site.CAPTURED.get("project"), site.CAPTURED.get("docs")
        outdir = os.path.join(d, "doc")
        # (1) page objects vs files written
        pages = list(docs.docs)
        outs = collections.Counter(str(p.outfile).lower() for p in pages)
        for o, n in outs.items():
            if n > 1:
                problems.append({"kind": "shared-page", "detail": f"{n} page objects write {os.path.relpath(o, outdir.lower())}"})
        for p in pages:
            if not os.path.exists(p.outfile):
                problems.append({"kind": "missing-page", "detail": os.path.relpath(str(p.outfile), outdir)})
        # (2) the page at an entity's URL documents that entity
        for x in expect:
            ent = find_entity(project, x)
            if ent is None:
                problems.append({"kind": "entity-not-reported", "detail": f"{x['kind']} {x['name']!r} (case entity {x['i']})"})
                continue
            url = ent.get_url()
            if not url:
                problems.append({"kind": "no-url", "detail": f"{x['kind']} {x['name']!r}"})
                continue
            path = os.path.join(outdir, url.split("#")[0])
            if not os.path.exists(path):
                problems.append({"kind": "url-missing", "detail": f"{x['kind']} {x['name']!r} -> {url}"})
                continue
            text = open(path, encoding="utf-8").read()
            if x["tracer"] not in text:
                others = [y["tracer"] for y in expect if y["tracer"] in text]
                problems.append({"kind": "wrong-page", "detail": f"{url} should document {x['kind']} {x['name']!r} ({x['tracer']}) but holds {others}"})
        # (3) anchors unique per page
        for rel in site.html_files(outdir):
            pg = site.parse_page(outdir, rel)
            dup = [k for k, n in collections.Counter(pg.ids).items() if n > 1]
            if dup:
                problems.append({"kind": "duplicate-id", "detail": f"{rel}: {dup[:4]}", "page": rel, "ids": dup})
        # (4) copied sources
        src_collision = False
        byname = collections.defaultdict(list)
        for f in project.allfiles:           # Fortran sources and the files of the extra file types
            byname[f.name].append(f)
        for name, fl in byname.items():
            copy = os.path.join(outdir, "src", name)
            if len(fl) > 1:
                src_collision = True
                problems.append({"kind": "src-collision", "detail": f"{len(fl)} source files named {name} share src/{name}"})
                continue
            if not os.path.exists(copy) or open(copy, "rb").read() != open(fl[0].path, "rb").read():
                problems.append({"kind": "src-copy", "detail": f"src/{name} is not the defining file's bytes"})
        return {"problems": problems, "events": events, "files": files if problems else None, "src_collision": src_collision}


_ENTS = re.compile(r"/\\ ents = ")


def _parse_block(block):
    st = tlaval.parse_state(block)
    return tuple((e["dir"], e["raw"]) for e in st["ents"])


def generate(scratch, maxents, ck, dev):
    raws = sorted({r for _, r in PAIRS})
    stemfn = "[x \\in {" + ", ".join(tlaval.to_tla(r) for r in raws) + "} |-> CASE " + \
        " [] ".join(f"x = {tlaval.to_tla(r)} -> {tlaval.to_tla(stem_key(r))}" for r in raws) + "]"
    base = {"Dirs": frozenset(d for d, _ in PAIRS), "Raw": frozenset(raws), "StemOf": "=" + stemfn,
            "Pairs": frozenset(PAIRS), "MaxEnts": maxents}
    mod, cfg = tlc.make_model(scratch, "Names", dict(base, Dev=frozenset()), name="MCd", spec="Spec", invariants=["Injective", "Stable"])
    r0 = tlc.run(mod, cfg, workers=16, timeout=1800)
    if not r0.ok:
        raise tlc.TLCFailure(f"Names: selector without deviations violates {r0.violated}")
    mod, cfg = tlc.make_model(scratch, "Names", dict(base, Dev=frozenset()), name="MCvac", spec="Spec", invariants=["NeverCollide"])
    if tlc.run(mod, cfg, workers=8, timeout=600).ok:
        raise tlc.TLCFailure("vacuity guard NeverCollide not violated")
    mod, cfg = tlc.make_model(scratch, "Names", dict(base, Dev=frozenset(dev)), name="MCg", spec="Spec")
    dump = os.path.join(scratch, "gen")
    r = tlc.run(mod, cfg, workers=16, dump=dump, timeout=1800)
    ents = set(pool.pmap(_parse_block, tlc.read_dump_blocks(r.dump_file), chunksize=500))
    os.remove(r.dump_file)
    ck.coverage["states"] = r0.distinct + r.distinct
    ck.coverage["transitions"] = r0.generated + r.generated
    return sorted(e for e in ents if e)


def known(p, ents, ck):
    """Does problem p carry the signature of a listed open finding?"""
    if p["kind"] == "src-collision":
        return ck.known_finding("C10-F2")
    if p["kind"] == "duplicate-id":
        m = re.fullmatch(r"module/hi(\d+)\.html", p.get("page", ""))
        if m and all(i.startswith("variable-") for i in p["ids"]) and int(m.group(1)) <= len(ents) \
                and ents[int(m.group(1)) - 1]["dir"] == "interface":
            return ck.known_finding("C10-F3")
        if p.get("page") == "module/anchorfix.html" and all(i.startswith("variable-") for i in p["ids"]):
            return ck.known_finding("C10-F3")       # the fixture's interfaces name module procedures, too
    return False


def validate_traces(runs, dev):
    d = tlc.scratch_dir("verif-c10t-")
    try:
        tf = os.path.join(d, "runs.json")
        json.dump({"runs": runs}, open(tf, "w"))
        mod, cfg = tlc.make_model(d, "Names_Trace", {"Dev": frozenset(dev)}, spec="Spec", postcondition="AllConsumed")
        res = tlc.run(mod, cfg, workers=1, env={"TRACE_FILE": tf}, timeout=1800)
        vs = []
        for line in res.output.splitlines():
            m = re.search(r'<<"VERDICT", "(.*)">>$', line.strip())
            if m:
                vs.append(json.loads(m.group(1).encode().decode("unicode_escape")))
        if len(vs) != len(runs):
            raise tlc.TLCFailure(f"Names_Trace: {len(runs)} runs, {len(vs)} verdicts\n{res.output[-1500:]}")
        return vs
    finally:
        shutil.rmtree(d, ignore_errors=True)


def run(tier, seed, ck: Check):
    big = tier == "thorough"
    dev = as_built_dev()
    scratch = tlc.scratch_dir("verif-c10-")
    try:
        allents = generate(scratch, 3 if big else 2, ck, dev)
        rng = random.Random(seed)
        if not big:
            # plus a seeded sample of three-entity cases
            more = [tuple(rng.choice(PAIRS) for _ in range(3)) for _ in range(120)]
            allents = sorted(set(allents) | set(more))
        cases = [{"ents": [{"dir": d, "raw": r} for d, r in e]} for e in allents]
        results = pool.pmap(evaluate, cases, chunksize=4)
        runs = []
        for idx, (c, r) in enumerate(zip(cases, results)):
            ck.count()
            key = json.dumps(c["ents"])
            if len({(e["dir"], stem_key(e["raw"])) for e in c["ents"]}) < len(c["ents"]):
                ck.nontrivial_case(key)
            runs.append({"id": idx, "events": r["events"]})
            for p in r["problems"]:
                if known(p, c["ents"], ck):
                    continue
                ck.violation(p["kind"], c["ents"], detail=p["detail"], extra={"files": r["files"]})
        vs = validate_traces(runs, dev)
        ck.coverage["traces_validated_against_impl"] = len(vs)
        ck.coverage["get_name_events"] = sum(v["n"] for v in vs)
        for v in vs:
            if v["bad"]:
                c = cases[v["id"]]
                ev = runs[v["id"]]["events"][v["bad"] - 1]
                ck.violation("selector-trace", c["ents"], observed=ev,
                             detail=f"get_name call {v['bad']} ({ev['dir']}/{ev['raw']!r} -> {ev['ret']!r}): {v['why']}")
        # the trace spec is bound to what was recorded: one corrupted field -> that run rejected
        good = [r_ for r_, v in zip(runs, vs) if not v["bad"] and len(r_["events"]) >= 2]
        corrupted = []
        for j, r_ in enumerate(good[:: max(1, len(good) // 12)][:12]):
            r2 = json.loads(json.dumps(r_)); r2["id"] = j
            seen, rep = set(), None
            for t, e_ in enumerate(r2["events"]):
                if e_["e"] in seen and rep is None:
                    rep = t
                seen.add(e_["e"])
            if j % 2 == 0:
                r2["events"][0]["n"] += 1                                # first stem numbered differently from the model
            elif rep is not None:
                r2["events"][rep]["ret"] += "x"                          # a later call for the same entity answered differently
            else:
                r2["events"].append(dict(r2["events"][0], ret=r2["events"][0]["ret"] + "x"))   # (repeated calls that answer as before are not logged)
            corrupted.append(r2)
        if corrupted:
            cv = validate_traces(corrupted, dev)
            if [v["id"] for v in cv if not v["bad"]]:
                raise tlc.TLCFailure(f"Names_Trace accepted corrupted runs {[v['id'] for v in cv if not v['bad']]}: the trace spec does not bind")
            ck.coverage["corrupted_traces_rejected"] = len(cv)
        for c in cases[:: max(1, len(cases) // 4)][:4]:
            ck.sample({"entities": c["ents"], "files": render(c["ents"])[0]})
        ck.assumptions += [
            "module and program names are global identifiers, so case-variant duplicates are generated only for procedures, types and interfaces of different modules, for a module and a submodule, for unnamed programs / block data and for source files",
            "the lower-casing / symbol replacement that defines a stem (3 lines) is computed by the harness and handed to TLC as the constant StemOf / the event field key",
            "each entity carries a unique tracer word in its doc comment; 'documents that entity' = the page at its URL contains its tracer",
        ]
    finally:
        shutil.rmtree(scratch, ignore_errors=True)


def replay_file(path, ck):
    rec = json.load(open(path))
    r = evaluate({"ents": rec["case"]})
    ck.count(); ck.nontrivial_case("r1"); ck.nontrivial_case("r2")
    ck.sample({"entities": rec["case"], "problems": r["problems"]})
    for p in r["problems"]:
        if known(p, rec["case"], ck):
            continue
        ck.violation(p["kind"], rec["case"], detail=p["detail"], extra={"files": r["files"]})


def main():
    a = common.args()
    ck = Check(PROP, "model_checking", a.tier, a.seed)
    try:
        if a.replay:
            replay_file(a.replay, ck)
        else:
            run(a.tier, a.seed, ck)
    except tlc.TLCFailure as e:
        return machinery_failure(PROP, str(e))
    return ck.finish(rule="cases = entity sequences reachable in spec/Names.tla over 15 (directory, name) pairs (all of length <= MaxEnts, plus a seeded "
                          "sample of longer ones), each built end to end; non-trivial iff two entities of one output directory have the same "
                          "case-insensitive stem; distinct by entity sequence", exhaustive=True)


if __name__ == "__main__":
    sys.exit(main())
