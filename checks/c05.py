#!/venv/bin/python
"""C05 - the site documents exactly the entities selected by the display options.

Spec: spec/Display.tla (Selected(e) from display inheritance, proc_internals, hide_undoc).  Every option
combination TLC enumerates is written as a project (display overrides as documentation metadata of the
file, the module, a type and a procedure), built end to end, and the whole output tree (every page and
the search index) is scanned: the tracer of every selected entity appears on its parent's page, its own
page exists iff its kind has one, and the tracer of an unselected entity appears nowhere.
"""
from __future__ import annotations
import json
import os
import re
import shutil
import sys
import zlib

sys.path.insert(0, os.path.dirname(os.path.abspath(__file__)))
import common  # noqa: E402
from vlib import tlc, tlaval, pool, fordrun, site  # noqa: E402
from vlib.verdict import Check, machinery_failure  # noqa: E402

PROP = "C05"
DISP = {"pub": ["public"], "pubprot": ["public", "protected"], "all": ["public", "protected", "private"], "priv": ["private"], "prot": ["protected"], "none": ["none"]}
PARENT_PAGE = {"m": "module/m.html", "t_pub": "type/t_pub.html", "s_pub": "proc/s_pub.html", "sm": "module/sm.html", "mp": "proc/mp.html", "s_prv": "proc/s_prv.html"}
OWN_PAGE = {"t_pub": "type/t_pub.html", "t_prv": "type/t_prv.html", "s_pub": "proc/s_pub.html", "s_prv": "proc/s_prv.html",
            "g_pub": "interface/g_pub.html", "ai_prv": "interface/ai_prv.html", "mp": "proc/mp.html", "mpi": "interface/mp.html", "nl_prv": "namelist/nl_prv.html", "t_ext": "type/t_ext.html"}
PARENT = {"v_pub": "m", "v_prv": "m", "v_pro": "m", "u_pub": "m", "t_pub": "m", "t_prv": "m", "c_pub": "t_pub", "c_prv": "t_pub",
          "b_pub": "t_pub", "b_prv": "t_pub", "s_pub": "m", "s_prv": "m", "lv": "s_pub", "inner": "s_pub", "g_pub": "m", "ai_prv": "m", "mp": "sm", "mplv": "mp", "mpi": "m", "nl_prv": "s_prv", "t_ext": "m", "en_pub": "m", "en_prv": "m"}


def trc(n):
    return f"TRC{n.replace('_', '')}X"


def meta(o, ind):
    if o == "absent":
        return ""
    vals = DISP[o]
    out = f"{ind}!! display: {vals[0]}\n" + "".join(f"{ind}!!          {v}\n" for v in vals[1:])
    return out + f"{ind}!!\n"


def render(opt):
    src = (meta(opt["ofile"], "") + f"!! {trc('file')}\n"
           "module m\n" + meta(opt["omod"], "  ") + f"  !! {trc('m')} see [[s_prv]] [[t_prv]] [[ai_prv]] [[v_prv]] [[t_pub]]\n  implicit none\n"
           "  private :: s_prv, ai_prv, en_prv\n"
           f"  enum, bind(c)\n    enumerator :: en_pub = 1 !! {trc('en_pub')}\n    enumerator :: en_prv !! {trc('en_prv')}\n  end enum\n"
           f"  integer, public :: v_pub !! {trc('v_pub')}\n"
           f"  integer, private :: v_prv !! {trc('v_prv')}\n"
           f"  integer, protected :: v_pro !! {trc('v_pro')}\n"
           "  integer, public :: u_pub\n"
           "  type, public :: t_pub\n" + meta(opt["otype"], "    ") + f"    !! {trc('t_pub')}\n"
           f"    integer, public :: c_pub !! {trc('c_pub')}\n"
           f"    integer, private :: c_prv !! {trc('c_prv')}\n"
           "  contains\n"
           f"    procedure, public :: b_pub => impl_b !! {trc('b_pub')}\n"
           f"    procedure, private :: b_prv => impl_c !! {trc('b_prv')}\n"
           "  end type t_pub\n"
           f"  type, private :: t_prv\n    !! {trc('t_prv')}\n    integer :: z\n  contains\n    procedure :: bq => impl_q\n  end type t_prv\n"
           f"  type, public, extends(t_prv) :: t_ext\n    !! {trc('t_ext')}\n    integer :: w\n  end type t_ext\n"
           f"  interface\n    module subroutine mp()\n      !! {trc('mpi')}\n    end subroutine mp\n  end interface\n"
           f"  interface g_pub\n    !! {trc('g_pub')}\n    module procedure impl_g\n  end interface g_pub\n"
           f"  abstract interface\n    subroutine ai_prv(k)\n      !! {trc('ai_prv')}\n      integer :: k\n    end subroutine ai_prv\n  end interface\n"
           "contains\n"
           "  subroutine s_pub()\n" + meta(opt["oproc"], "    ") + f"    !! {trc('s_pub')} uses [[s_prv]] and [[t_prv]] and [[inner]]\n"
           f"    integer :: lv !! {trc('lv')}\n"
           "    lv = 1\n    call inner()\n  contains\n"
           f"    subroutine inner()\n      !! {trc('inner')}\n    end subroutine inner\n"
           "  end subroutine s_pub\n"
           f"  subroutine s_prv()\n    !! {trc('s_prv')}\n    integer :: nlv\n    namelist /nl_prv/ nlv\n    !! {trc('nl_prv')}\n  end subroutine s_prv\n"
           "  subroutine impl_q(self)\n    class(t_prv) :: self\n  end subroutine impl_q\n"
           "  subroutine impl_b(self)\n    class(t_pub) :: self\n  end subroutine impl_b\n"
           "  subroutine impl_c(self)\n    class(t_pub) :: self\n  end subroutine impl_c\n"
           "  subroutine impl_g(q)\n    integer :: q\n  end subroutine impl_g\n"
           "end module m\n"
           f"submodule (m) sm\n  !! {trc('sm')}\ncontains\n  module procedure mp\n    !! {trc('mp')}\n    integer :: mplv !! {trc('mplv')}\n    mplv = 1\n"
           "  end procedure mp\nend submodule sm\n")
    return {"src/f.f90": src}


def evaluate(case):
    opt, selected = case["opt"], set(case["selected"])
    files = render(opt)
    bad = []
    with fordrun.tempdir("verif-c05-") as d:
        fordrun.write_files(d, files)
        ok, log, err = site.run_inproc(d, {"display": DISP[opt["proj"]], "proc_internals": opt["proc_internals"], "hide_undoc": opt["hide_undoc"],
                                            "incl_src": False, "search": True, "graph": case.get("graph", False)})
        if not ok:
            return {"bad": [("abort", f"FORD failed: {type(err).__name__}: {err}")], "src": files["src/f.f90"]}
        outdir = os.path.join(d, "doc")
        texts = {}
        for rel in site.html_files(outdir):
            texts[rel] = open(os.path.join(outdir, rel), encoding="utf-8").read()
        sdb = open(os.path.join(outdir, "search", "search_database.json"), encoding="utf-8").read() if os.path.exists(os.path.join(outdir, "search", "search_database.json")) else ""
        observed = {"file", "m", "sm"}
        for e, par in PARENT.items():
            sel = e in selected
            if e == "u_pub":
                pg = texts.get("module/m.html", "")
                shown = bool(re.search(r"\bu_pub\b", pg))
                if shown:
                    observed.add(e)
                if shown != sel:
                    bad.append(("undoc", f"undocumented u_pub {'is' if shown else 'is not'} listed on the module page, selected={sel}"))
                continue
            t = trc(e)
            where = sorted(rel for rel, x in texts.items() if t in x)
            if where:
                observed.add(e)
            if sel:
                pp = PARENT_PAGE[par]
                if pp in texts and t not in texts[pp]:
                    bad.append(("missing", f"{e} is selected but its documentation is not on {pp} (found on {where})"))
                if e in OWN_PAGE and OWN_PAGE[e] not in texts:
                    bad.append(("no-page", f"{e} is selected but {OWN_PAGE[e]} was not written"))
            else:
                if where:
                    bad.append(("leak", f"{e} is not selected but its documentation text appears on {where[:4]}"))
                if t in sdb:
                    bad.append(("leak-search", f"{e} is not selected but its documentation text is in the search index"))
                if e in OWN_PAGE and OWN_PAGE[e] in texts:
                    bad.append(("page-of-unselected", f"{e} is not selected but {OWN_PAGE[e]} was written"))
        # links never point at pages of unselected entities (a missing target is a dead link)
        unsel_pages = {pg for e, pg in OWN_PAGE.items() if e not in selected}
        for p in site.link_problems(outdir):
            if any(p["url"].split("#")[0].endswith(pg) for pg in unsel_pages):      # other dead links are C09's business
                bad.append(("link", f"{p['page']}: {p['url']} points at the page of an unselected entity ({p['why']})"))
    return {"bad": bad, "src": files["src/f.f90"] if bad else None, "observed": sorted(observed)}


def _parse_block(block):
    if '/\\ phase = "done"' not in block:
        return None
    st = tlaval.parse_state(block)
    return {"opt": dict(st["opt"]), "selected": sorted(st["out"])}


def run(tier, seed, ck: Check):
    big = tier == "thorough"
    scratch = tlc.scratch_dir("verif-c05m-")
    try:
        mod, cfg = tlc.make_model(scratch, "Display", {}, name="MCvac", spec="Spec", invariants=["NeverPrivateShown"])
        if tlc.run(mod, cfg, workers=4, timeout=600).ok:
            raise tlc.TLCFailure("vacuity guard NeverPrivateShown not violated")
        mod, cfg = tlc.make_model(scratch, "Display", {}, name="MC", spec="Spec", invariants=["UnselectedParentHidesChildren", "InternalsNeedOption", "UndocHidden"])
        dump = os.path.join(scratch, "gen")
        r = tlc.run(mod, cfg, workers=8, dump=dump, timeout=900)
        if not r.ok:
            raise tlc.TLCFailure(f"Display: {r.violated} violated")
        cases = [c for c in pool.pmap(_parse_block, tlc.read_dump_blocks(r.dump_file), chunksize=500) if c]
        os.remove(r.dump_file)
        ck.coverage["states"] = r.distinct
        ck.coverage["transitions"] = r.generated
        ck.coverage["option_combinations"] = len(cases)
    finally:
        shutil.rmtree(scratch, ignore_errors=True)
    # as-built prediction for the open findings: a file-level override is ignored (C05-F1) and, with hide_undoc,
    # the abstract interface documented inside its block is dropped (C05-F2)
    table = {json.dumps(c["opt"], sort_keys=True): c["selected"] for c in cases}

    def as_built(opt):
        sel = set(table[json.dumps(dict(opt, ofile="absent"), sort_keys=True)])
        if opt["hide_undoc"]:
            sel.discard("ai_prv")
            sel.discard("mpi")
        sel.update(("en_pub", "en_prv"))   # C05-F5: enumerators are shown whatever `display` says
        sel.add("nl_prv")          # C05-F3: the namelist of a procedure is documented whatever happens to the procedure
        return sel

    div = 1 if big else 40
    cases = [c for c in cases if zlib.crc32(json.dumps(c["opt"], sort_keys=True).encode()) % div == seed % div]
    for i, c in enumerate(cases):
        c["graph"] = (i % 7 == 0)
    for c, r_ in zip(cases, pool.pmap(evaluate, cases, chunksize=2)):
        ck.count()
        if any(c["opt"][k] != "absent" for k in ("ofile", "omod", "otype", "oproc")) or c["opt"]["hide_undoc"]:
            ck.nontrivial_case(json.dumps(c["opt"], sort_keys=True))
        explained = "observed" in r_ and set(r_["observed"]) == as_built(c["opt"]) and set(r_["observed"]) != set(c["selected"])
        seen = set()
        for tag, b in r_["bad"]:
            if (tag, b[:40]) in seen:
                continue
            seen.add((tag, b[:40]))
            if explained and tag in ("missing", "leak", "leak-search", "no-page", "page-of-unselected", "undoc", "link"):
                hit = False
                if b.startswith("nl_prv "):
                    hit = ck.known_finding("C05-F3")
                elif b.startswith(("en_pub ", "en_prv ")):
                    hit = ck.known_finding("C05-F5")
                elif c["opt"]["hide_undoc"] and b.startswith(("ai_prv ", "mpi ")):
                    hit = ck.known_finding("C05-F2")
                elif c["opt"]["ofile"] != "absent":
                    hit = ck.known_finding("C05-F1")
                if hit:
                    continue
            if tag == "link" and "type/t_prv.html#boundprocedure-bq points at" in b and "t_ext" in r_.get("observed", []) and "t_prv" not in c["selected"] \
                    and ck.known_finding("C05-F4"):
                continue
            ck.violation(tag, c["opt"], expected=c["selected"], observed=r_.get("observed"), detail=b, extra={"source": r_["src"]})
    ck.coverage["traces_validated_against_impl"] = 0
    if cases:
        ck.sample({"options": cases[0]["opt"], "selected": cases[0]["selected"]})
    ck.assumptions += [
        "sources are not included (incl_src: false, source: false): a source listing necessarily shows every comment of the file",
        "procedures that are only targets of bindings / generics carry no documentation, so the 'shown via a selected binding' case does not arise",
        "one fixed entity tree; accessibilities given by attributes / access statements that FORD reads correctly (C04)",
    ]


def replay_file(path, ck):
    rec = json.load(open(path))
    r_ = evaluate({"opt": rec["case"], "selected": rec["expected"]})
    ck.count(); ck.nontrivial_case("r1"); ck.nontrivial_case("r2")
    ck.sample({"options": rec["case"], "problems": r_["bad"]})
    for tag, b in r_["bad"]:
        ck.violation(tag, rec["case"], expected=rec["expected"], detail=b)


def main():
    a = common.args()
    ck = Check(PROP, "exploration", a.tier, a.seed)
    try:
        if a.replay:
            replay_file(a.replay, ck)
        else:
            run(a.tier, a.seed, ck)
    except tlc.TLCFailure as e:
        return machinery_failure(PROP, str(e))
    return ck.finish(rule="cases = option combinations of spec/Display.tla (project display in 4 sets x display override {absent, public, all, private, none} at "
                          "file / module / type / procedure level x proc_internals x hide_undoc = 8000), each built end to end over a fixed 18-entity tree "
                          "with one tracer per entity; non-trivial iff some override or hide_undoc is active; distinct by option record", exhaustive=(a.tier == "thorough"))


if __name__ == "__main__":
    sys.exit(main())
