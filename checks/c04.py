#!/venv/bin/python
"""C04 - accessibility of every entity follows Fortran's PUBLIC/PRIVATE rules.

Spec: spec/Access.tla (generator of specification parts, Ref = the rule, Impl = as-built mechanism
with named deviations LatePrivate / ProtectedSlot).  Every Complete state TLC reaches is rendered as
Fortran (two spellings x two contexts), parsed by the real FORD and entity.permission compared to Ref.
"""
from __future__ import annotations
import json
import os
import re
import shutil
import sys

sys.path.insert(0, os.path.dirname(os.path.abspath(__file__)))
import common  # noqa: E402
from vlib import tlc, tlaval, pool, fordrun  # noqa: E402
from vlib.verdict import Check, machinery_failure  # noqa: E402

PROP = "C04"
AS_BUILT_DEV = frozenset({"LatePrivate", "ProtectedSlot"})
NAMES = frozenset({"e1", "e2"})


OPEQ = {"e1": "operator(==)", "e2": "assignment(=)", "e3": "operator(/=)"}
OPEQ_BACK = {v: k for k, v in OPEQ.items()}


# ---------------------------------------------------------------- rendering
def _kw(s, up):
    return s.upper() if up else s


def render(mode, prog, spelling, context):
    """Abstract specification part -> Fortran source text.  spelling 0 = lower case, '::' everywhere;
    spelling 1 = upper-case keywords, names in access statements in upper case, no '::' in access statements."""
    up = spelling == 1
    kind_of = {x["name"]: x.get("kind", x["s"]) for x in prog if x["s"] in ("decl", "comp", "bind")}

    def accname(n):
        nn = f"operator(.{n}.)" if kind_of.get(n) == "operator" else (OPEQ[n] if kind_of.get(n) == "opeq" else n)
        return nn.upper() if up else nn

    def attr(a):
        return "" if a == "none" else ", " + _kw(a, up)

    spec, procs = [], []
    need_iface = False
    need_opnd = False
    for x in prog:
        s = x["s"]
        if s == "bare":
            spec.append(_kw(x["p"], up))
        elif s == "acc":
            spec.append(f"{_kw(x['p'], up)} {accname(x['name'])}" if up else f"{x['p']} :: {accname(x['name'])}")
        elif s == "decl":
            k, n, a = x["kind"], x["name"], x["attr"]
            if k == "var":
                spec.append(f"{_kw('integer', up)}{attr(a)} :: {n}")
            elif k == "param":
                spec.append(f"{_kw('integer', up)}, {_kw('parameter', up)}{attr(a)} :: {n} = 1")
            elif k == "type":
                spec += [f"{_kw('type', up)}{attr(a)} :: {n}", f"  integer :: c_{n}", f"{_kw('end type', up)} {n}"]
            elif k == "sub":
                procs += [f"{_kw('subroutine', up)} {n}()", f"{_kw('end subroutine', up)} {n}"]
            elif k == "func":
                procs += [f"{_kw('function', up)} {n}() {_kw('result', up)}(r)", "  integer :: r", "  r = 1", f"{_kw('end function', up)} {n}"]
            elif k == "generic":
                spec += [f"{_kw('interface', up)} {n}", f"  {_kw('module procedure', up)} {n}_impl", f"{_kw('end interface', up)} {n}"]
                procs += [f"subroutine {n}_impl(a)", "  integer :: a", f"end subroutine {n}_impl"]
            elif k == "genbody":
                spec += [f"{_kw('interface', up)} {n}", f"  {_kw('subroutine', up)} {n}_ext(a)", "    integer :: a", f"  {_kw('end subroutine', up)} {n}_ext",
                         f"  {_kw('module procedure', up)} {n}_impl", f"{_kw('end interface', up)} {n}"]
                procs += [f"subroutine {n}_impl(a)", "  real :: a", f"end subroutine {n}_impl"]
            elif k == "operator":
                spec += [f"{_kw('interface operator', up)}(.{n}.)", f"  {_kw('module procedure', up)} {n}_impl", f"{_kw('end interface', up)}"]
                procs += [f"function {n}_impl(a, b) result(r)", "  integer, intent(in) :: a, b", "  integer :: r", "  r = a + b",
                          f"end function {n}_impl"]
            elif k == "opeq":
                spec += [f"{_kw('interface', up)} {OPEQ[n]}", f"  {_kw('module procedure', up)} {n}_impl", f"{_kw('end interface', up)}"]
                if OPEQ[n].startswith("assignment"):
                    procs += [f"subroutine {n}_impl(a, b)", "  type(opnd), intent(out) :: a", "  integer, intent(in) :: b", "  a%v = b", f"end subroutine {n}_impl"]
                else:
                    procs += [f"function {n}_impl(a, b) result(r)", "  type(opnd), intent(in) :: a, b", "  logical :: r", "  r = a%v > b%v", f"end function {n}_impl"]
                need_opnd = True
            elif k == "ctype":
                tn = n.capitalize() if up else n          # the type's name has an upper-case letter in the second spelling
                spec += [f"{_kw('type', up)}{attr(a)} :: {tn}", f"  integer :: c_{n}", f"{_kw('end type', up)} {tn}",
                         f"{_kw('interface', up)} {tn}", f"  {_kw('module procedure', up)} {n}_make", f"{_kw('end interface', up)} {tn}"]
                procs += [f"function {n}_make(v) result(t)", "  real, intent(in) :: v", f"  type({tn}) :: t", f"  t%c_{n} = int(v)", f"end function {n}_make"]
            elif k == "absint":
                spec += [f"{_kw('abstract interface', up)}", f"  {_kw('subroutine', up)} {n}()", f"  {_kw('end subroutine', up)} {n}",
                         f"{_kw('end interface', up)}"]
        elif s == "typehead":
            deferred = any(y["s"] == "bind" and y["form"] == "deferred" for y in prog)
            need_iface = deferred
            ab = ", abstract" if deferred else ""
            spec.append(f"{_kw('type', up)}{ab}{attr(x['attr'])} :: t0")
        elif s == "tprivate":
            spec.append("  " + _kw("private", up))
        elif s == "comp":
            spec.append(f"  {_kw('integer', up)}{attr(x['attr'])} :: {x['name']}")
        elif s == "contains":
            spec.append(_kw("contains", up))
        elif s == "bind":
            n, a, f = x["name"], x["attr"], x["form"]
            if f == "single":
                spec.append(f"  {_kw('procedure', up)}{attr(a)} :: {n} => impl_{n}")
                procs += [f"subroutine impl_{n}(self)", "  class(t0) :: self", f"end subroutine impl_{n}"]
            elif f == "multi":
                spec.append(f"  {_kw('procedure', up)}{attr(a)} :: {n}, {n}_2")
                for m in (n, n + "_2"):
                    procs += [f"subroutine {m}(self)", "  class(t0) :: self", f"end subroutine {m}"]
            elif f == "generic":
                spec.append(f"  {_kw('procedure', up)} :: s_{n}")
                spec.append(f"  {_kw('generic', up)}{attr(a)} :: {n} => s_{n}")
                procs += [f"subroutine s_{n}(self)", "  class(t0) :: self", f"end subroutine s_{n}"]
            elif f == "deferred":
                spec.append(f"  {_kw('procedure', up)}(iface_d), {_kw('deferred', up)}{attr(a)} :: {n}")
    if mode == "type":
        spec.append(_kw("end type", up) + " t0")
        if need_iface:
            spec += ["abstract interface", "  subroutine iface_d(self)", "    import :: t0", "    class(t0) :: self",
                     "  end subroutine iface_d", "end interface"]
    lines = []
    if context == 1:
        lines += ["module neighbour_a", "  implicit none", "  private", "  integer, public :: e1", "  integer :: e2",
                  "end module neighbour_a", ""]
    if mode == "submodule":
        lines += ["module pm", "  implicit none", "  interface", "    module subroutine ms()", "    end subroutine ms",
                  "  end interface", "end module pm", "", "submodule (pm) sm"]
        unit_end = "end submodule sm"
    else:
        lines += [_kw("module", up) + " m", "  implicit none"]
        unit_end = _kw("end module", up) + " m"
    if need_opnd:
        lines += ["  type :: opnd", "    integer :: v", "  end type opnd"]
    lines += ["  " + s for s in spec]
    if procs or mode == "submodule":
        lines.append(_kw("contains", up))
        lines += ["  " + s for s in procs]
        if mode == "submodule":
            lines += ["  module subroutine ms()", "  end subroutine ms"]
    lines.append(unit_end)
    if context == 1:
        lines += ["", "module neighbour_b", "  use neighbour_a", "  implicit none", "  public", "  integer, private :: e2",
                  "end module neighbour_b"]
    return "\n".join(lines) + "\n"


# ---------------------------------------------------------------- observation
def observe(mode, text):
    p = fordrun.project({"case.f90": text})
    unit = None
    for m in list(p.modules) + list(p.submodules):
        if m.name.lower() in ("m", "sm"):
            unit = m
    if unit is None:
        return {"_error": "unit m/sm not reported (file rejected?)"}
    obs = {}
    if mode == "type":
        t = next((t for t in unit.types if t.name.lower() == "t0"), None)
        if t is None:
            return {"_error": "type t0 not reported"}
        obs["t0"] = t.permission
        for v in t.variables:
            obs[v.name.lower()] = v.permission
        for b in t.boundprocs:
            obs[b.name.lower()] = b.permission
        return obs
    for coll in ("variables", "types", "subroutines", "functions", "interfaces", "absinterfaces"):
        for e in getattr(unit, coll, []):
            n = e.name.lower()
            m = re.fullmatch(r"operator\(\.(\w+)\.\)", n)
            key = m.group(1) if m else OPEQ_BACK.get(n.replace(" ", ""), n)
            if coll == "interfaces" and key in obs and any(t.name.lower() == key for t in unit.types):
                key = key + "_ctor"              # the constructor interface of a type of the same name
            obs[key] = e.permission
            if coll == "interfaces":
                for pr in list(getattr(e, "subroutines", []) or []) + list(getattr(e, "functions", []) or []):
                    obs[pr.name.lower()] = pr.permission          # specific procedures declared by interface bodies
    return obs


def evaluate(case):
    mode, prog, out = case["mode"], case["prog"], case["out"]
    results = []
    for spelling, context in case.get("variants", ((0, 0), (0, 1), (1, 0), (1, 1))):
        if True:
            text = render(mode, prog, spelling, context)
            try:
                obs = observe(mode, text)
            except Exception as ex:  # FORD must not fail on valid input
                obs = {"_error": f"{type(ex).__name__}: {ex}"}
            results.append((spelling, context, text, obs))
    return results


def judge(case, results, ck: Check):
    out = case["out"]
    ref = {k: set(v) for k, v in out["ref"].items()}
    impl = out["impl"]
    if case["mode"] == "type":
        ref["t0"] = {out["tref"]}
    for spelling, context, text, obs in results:
        ck.count()
        if "_error" in obs:
            ck.violation("ford-failed", case["prog"], expected=_j(ref), observed=obs, detail=obs["_error"], extra={"source": text})
            continue
        for n, allowed in ref.items():
            names = [n, n + "_2"] if any(x["s"] == "bind" and x["name"] == n and x["form"] == "multi" for x in case["prog"]) else [n]
            if any(x["s"] == "decl" and x["name"] == n and x["kind"] == "ctype" for x in case["prog"]):
                names = [n, n + "_ctor"]
            for nm in names:
                got = obs.get(nm)
                if got in allowed:
                    continue
                # known-finding signatures: the as-built model predicts exactly this value for this entity
                if got is not None and got == impl.get(n):
                    if n in out["late"] and ck.known_finding("C04-F1"):
                        continue
                    if n in out["pslot"] and ck.known_finding("C04-F2"):
                        continue
                ck.violation("permission", {"mode": case["mode"], "prog": case["prog"], "spelling": spelling, "context": context},
                             expected=_j(ref), observed=obs,
                             detail=f"entity {nm}: FORD says {got!r}, Fortran's rules give {sorted(allowed)}",
                             extra={"source": text})


def judge_specifics(case, results, ck: Check):
    out = case["out"]
    for spelling, context, text, obs in results:
        if "_error" in obs:
            continue
        for n, allowed in out.get("sref", {}).items():
            got = obs.get(n + "_ext")
            if got in allowed:
                continue
            if got is not None and got == out["simpl"].get(n) and n in out["slate"] and ck.known_finding("C04-F1"):
                continue
            ck.violation("permission", {"mode": case["mode"], "prog": case["prog"], "spelling": spelling, "context": context},
                         expected={n + "_ext": sorted(allowed)}, observed=obs,
                         detail=f"specific procedure {n}_ext (interface body inside generic interface {n}): FORD says {got!r}, Fortran's rules give {sorted(allowed)}",
                         extra={"source": text})


def _j(ref):
    return {k: sorted(v) for k, v in ref.items()}


def nontrivial(case):
    """At least two of {default, attribute, access statement} are present for some entity."""
    prog = case["prog"]
    bare = any(x["s"] in ("bare", "tprivate") for x in prog)
    attr = any(x.get("attr", "none") != "none" for x in prog)
    acc = any(x["s"] == "acc" for x in prog)
    return (bare + attr + acc) >= 2 or case["mode"] == "submodule"


_OUT = re.compile(r"/\\ out = \[")


def _parse_block(args):
    mode, block = args
    if not _OUT.search(block):
        return None
    st = tlaval.parse_state(block)
    out = st["out"]
    return {"mode": mode, "prog": [dict(x) for x in st["prog"]],
            "out": {"ref": {k: sorted(v) for k, v in out["ref"].items()}, "impl": dict(out["impl"]),
                    "late": sorted(out["late"]), "pslot": sorted(out["pslot"]), "tref": out["tref"],
                    "sref": {k: sorted(v) for k, v in dict(out["sref"]).items()}, "simpl": dict(out["simpl"]), "slate": sorted(out["slate"])}}


def generate(scratch, mode, nstmts, ck):
    # design check: the mechanism without deviations refines the rule; the as-built deviations are
    # exactly the recorded findings
    mod, cfg = tlc.make_model(scratch, "Access", {"Mode": mode, "MaxStmts": nstmts, "Names": NAMES, "Dev": frozenset()},
                              name=f"MCd_{mode}", spec="Spec", invariants=["ImplRefines"])
    r0 = tlc.run(mod, cfg, workers=16, timeout=1800)
    if not r0.ok:
        raise tlc.TLCFailure(f"Access[{mode}]: mechanism without deviations does not refine the rule: {r0.violated}")
    mod, cfg = tlc.make_model(scratch, "Access", {"Mode": mode, "MaxStmts": nstmts, "Names": NAMES, "Dev": AS_BUILT_DEV},
                              name=f"MCg_{mode}", spec="Spec", invariants=["OnlyKnownDeviations"])
    dump = os.path.join(scratch, f"gen_{mode}")
    r = tlc.run(mod, cfg, workers=16, dump=dump, timeout=1800)
    if not r.ok:
        raise tlc.TLCFailure(f"Access[{mode}]: as-built model deviates outside the recorded findings: {r.violated}\n{r.counterexample[-1:]}")
    blocks = tlc.read_dump_blocks(r.dump_file)
    os.remove(r.dump_file)
    cases = [c for c in pool.pmap(_parse_block, [(mode, b) for b in blocks], chunksize=500) if c]
    ck.coverage.setdefault("models", {})[mode] = {"MaxStmts": nstmts, "states": r.distinct, "cases": len(cases)}
    ck.coverage["states"] = ck.coverage.get("states", 0) + r.distinct + r0.distinct
    ck.coverage["transitions"] = ck.coverage.get("transitions", 0) + r.generated + r0.generated
    return cases


def run(tier, seed, ck: Check):
    big = tier == "thorough"
    scratch = tlc.scratch_dir("verif-c04-")
    try:
        # vacuity guard
        mod, cfg = tlc.make_model(scratch, "Access", {"Mode": "module", "MaxStmts": 3, "Names": NAMES, "Dev": AS_BUILT_DEV},
                                  name="MCvac", spec="Spec", invariants=["NeverLate"])
        if tlc.run(mod, cfg, workers=4, timeout=600).ok:
            raise tlc.TLCFailure("vacuity guard NeverLate not violated")
        cases = []
        cases += generate(scratch, "module", 4 if big else 3, ck)
        cases += generate(scratch, "type", 6 if big else 5, ck)
        cases += generate(scratch, "submodule", 3, ck)
        if not big:
            for c in cases:
                c["variants"] = ((0, 0), (1, 1))
        results = pool.pmap(evaluate, cases, chunksize=50)
        for c, rs in zip(cases, results):
            judge(c, rs, ck)
            judge_specifics(c, rs, ck)
            if nontrivial(c):
                ck.nontrivial_case(json.dumps(c["prog"], sort_keys=True))
        for c in cases[:: max(1, len(cases) // 4)][:4]:
            ck.sample({"mode": c["mode"], "prog": c["prog"], "ref": c["out"]["ref"], "source": render(c["mode"], c["prog"], 0, 0)})
        ck.coverage["traces_validated_against_impl"] = 0
        ck.coverage["exhaustive_over"] = ("all specification parts of <=MaxStmts statements over 2 names: scope default {none,public,private} at every "
                                         "position x declaration attribute x access/protected statement before or after the declaration x 9 module-level "
                                         "entity kinds; types: head attribute x component-part PRIVATE x components x binding-part PRIVATE x 4 binding forms")
        ck.assumptions += [
            "accessibility is given at most once per entity (Fortran constraint), so attribute + access statement for the same entity are not combined",
            "a variable that is both PROTECTED and private may be reported as either (the statement does not say which fact the single slot carries)",
            "procedures carry no access attribute on their own statement (not Fortran); submodules contain plain declarations only",
            "each case is rendered in 2 spellings (lower case with '::'; upper-case keywords and access-statement names, access statements without '::') x 2 contexts (alone; between two neighbour modules reusing the names)",
        ]
    finally:
        shutil.rmtree(scratch, ignore_errors=True)


def replay_file(path, ck):
    rec = json.load(open(path))
    c = rec["case"]
    text = rec.get("source") or render(c["mode"], c["prog"], c.get("spelling", 0), c.get("context", 0))
    obs = observe(c["mode"], text)
    exp = rec["expected"]
    ck.count()
    ck.nontrivial_case("r1"); ck.nontrivial_case("r2")
    ck.sample({"source": text, "observed": obs, "expected": exp})
    for n, allowed in exp.items():
        if obs.get(n) not in allowed:
            ck.violation("permission", c, expected=exp, observed=obs, detail=f"entity {n}: FORD says {obs.get(n)!r}, rules give {allowed}",
                         extra={"source": text})


def main():
    a = common.args()
    ck = Check(PROP, "model_checking", a.tier, a.seed)
    try:
        if a.replay:
            replay_file(a.replay, ck)
        else:
            run(a.tier, a.seed, ck)
    except tlc.TLCFailure as e:
        return machinery_failure(PROP, str(e))
    return ck.finish(rule="cases = Complete states of spec/Access.tla (all statement sequences up to MaxStmts per mode), each rendered in 2 spellings x 2 "
                          "contexts; non-trivial iff at least two of {scope default statement, declaration attribute, access statement} occur (or submodule); "
                          "distinct by abstract program", exhaustive=True)


if __name__ == "__main__":
    sys.exit(main())
