#!/venv/bin/python
"""C14 - fixed-form sources document the same as their free-form equivalent.

Spec: spec/FixedForm.tla (generator of fixed-form layouts, converter model FLine/ConvertToFree composed
with ReaderImpl, invariant Equivalent) and spec/FixedForm_Trace.tla.
Replay: (1) every layout TLC generates is read by the real FortranReader(fixed=True) and compared with
the logical content; (2) convertToFree input/output of every case and of the repository's .f file is
validated by TLC against the converter model; (3) programs are rendered in both forms (random
continuation breaks, labels, comment styles, sequence fields, blank lines) and the canonical entity
trees compared.
"""
from __future__ import annotations
import json
import os
import random
import re
import shutil
import sys
import zlib

sys.path.insert(0, os.path.dirname(os.path.abspath(__file__)))
import common  # noqa: E402
from vlib import tlc, tlaval, pool, fordrun, tree, readerbind as rb  # noqa: E402
from vlib.verdict import Check, machinery_failure, load_known  # noqa: E402
import c02  # noqa: E402  (canonical statement form, shared with the free-form check)
import c12  # noqa: E402  (corpus)
import c20  # noqa: E402  (corpus)

PROP = "C14"
MARKS = rb.DEFAULT_MARKS
FDEVS = {"InlineAmp": "C14-F1"}


def as_built_fdev():
    k = load_known(PROP)
    return frozenset(d for d, f in FDEVS.items() if f in k)


def consts(fdev, **kw):
    c = {"DocMark": ("!",), "PreMark": (">",), "DocAlt": ("*",), "PreAlt": ("|",), "Dev": frozenset({"QuoteLineBlind"}),
         "FDev": frozenset(fdev), "MaxStmts": 2, "MaxToks": 3, "MaxCost": 2, "LengthLimit": True}
    c.update(kw)
    return c


def _parse_block(block):
    if not ('/\\ mode = "bol"' in block and "/\\ pdocs = <<>>" in block):
        return None
    st = tlaval.parse_state(block)
    return {"lines": ["".join(l) for l in st["flines"]], "logical": [{"k": i["k"], "t": "".join(i["t"])} for i in st["logical"]]}


def read_fixed(lines, limit=True):
    import ford.fixed2free2 as ff
    text = "\n".join(lines) + "\n"
    fed, yields, err = rb.run_reader_text(text, MARKS, suffix=".f", fixed=True, length_limit=limit)
    conv = [l.rstrip("\n") for l in ff.convertToFree(iter(text.splitlines(keepends=True)), limit)]
    return yields, err, conv


def replay_case(case):
    yields, err, conv = read_fixed(case["lines"], case.get("limit", True))
    exp = c02.expected_items(case["logical"])
    obs = c02.observed_items(yields, MARKS["doc"])
    return (not err) and obs == exp, yields, err, conv


# ---------------------------------------------------------------- free <-> fixed rendering of whole programs
def to_fixed(text, rng, limit=True):
    """Render simple free-form source (one statement per line, no continuation, no ';') as fixed form."""
    out = []
    label = 100
    for line in text.splitlines():
        s = line.strip()
        if not s:
            out.append(rng.choice(["", "        ", "   "]))
            continue
        if s.startswith("!"):
            if s.startswith("!!") or s.startswith("!>"):
                # doc comments keep their '!' - in column 1 or, indented, in columns 2-5 (a '!' there opens a comment, too);
                # comment lines may be longer than 72 columns
                out.append(rng.choice(["", "", " ", "  ", "    "]) + s)
            else:
                out.append(rng.choice(["C", "c", "*", "!"]) + s[1:])
            continue
        code, doc = split_inline_doc(s)
        pieces = break_points(code, rng)
        first = True
        for idx, piece in enumerate(pieces):
            if not limit and len(pieces) > 1 and idx < len(pieces) - 1 and " " in piece.strip() and "'" not in piece and rng.random() < 0.5:
                head, _, rest = piece.strip().partition(" ")
                piece = head + " " * 66 + rest            # a wide line (legal when the length limit is off) that is continued
            if first:
                lab = ""
                if rng.random() < 0.1 and re.match(r"(call|print|[a-z]\w* =)", piece, re.I):
                    label += 10
                    lab = str(label)
                ln = lab.ljust(6) + piece
                first = False
            else:
                ln = "     " + rng.choice("&1$+x*!9.#") + rng.choice(["", " ", "  "]) + piece
            last = idx == len(pieces) - 1
            if last and doc:
                if limit and len(ln) + 1 + len(doc) > 72:
                    out.append(ln)                  # columns 73+ do not belong to the line: the documentation goes on a line of its own
                    ln = doc
                else:
                    ln += " " + doc
            elif limit and len(ln) <= 72 and rng.random() < 0.25:
                ln = ln.ljust(72) + rng.choice(["SEQ%05d" % (len(out) + 1), "! side note", "12345678"])
            out.append(ln)
            if not last and rng.random() < 0.3:
                out.append(rng.choice(["C between", "* between", "", "          ", "! between"]))
    return "\n".join(out) + "\n"


def split_inline_doc(s):
    q = ""
    for i, c in enumerate(s):
        if q:
            if c == q:
                q = ""
        elif c in "'\"":
            q = c
        elif c == "!":
            return s[:i].rstrip(), s[i:]
    return s, ""


def break_points(code, rng):
    """Split a statement at blanks / after commas outside literals into 1-3 pieces."""
    cands = []
    q = ""
    depth = 0
    for i, c in enumerate(code):
        if q:
            if c == q:
                q = ""
            continue
        if c in "'\"":
            q = c
        elif c == " " and i > 0:
            cands.append(i)
        elif c == "," and i + 1 < len(code):
            cands.append(i + 1)
    if not cands or rng.random() < 0.5:
        pieces = [code]
    else:
        k = rng.choice([1, 1, 2])
        cuts = sorted(rng.sample(cands, min(k, len(cands))))
        pieces, prev = [], 0
        for cpos in cuts:
            pieces.append(code[prev:cpos])
            prev = cpos
        pieces.append(code[prev:])
    pieces = [p.strip() if j else p.rstrip() for j, p in enumerate(pieces)]
    pieces = [p for p in pieces if p] or [code]
    # statement text must fit in columns 7-72: a piece that is too long is cut again at its last break candidate that fits
    out = []
    for p in pieces:
        while len(p) > 60:
            cut = max((i for i, ch in enumerate(p[:60]) if ch in " ," and p[:i].count("'") % 2 == 0 and p[:i].count('"') % 2 == 0 and i > 0), default=0)
            if cut == 0:
                break
            cut = cut + 1 if p[cut] == "," else cut
            out.append(p[:cut].rstrip())
            p = p[cut:].strip()
        out.append(p)
    return [p for p in out if p]


def corpus():
    progs = []
    for n in range(4):
        for name, text in c12.project(n).items():
            progs.append((f"c12/{n}/{os.path.basename(name)}", text))
    for name, text in c20.VALID.items():
        progs.append((f"c20/{name}", text))
    progs.append(("c20/victim", c20.VICTIM))
    extra = ("module docs\n  !! module doc\n  implicit none\n  integer, parameter :: n = 3 !! inline doc\n  !> before doc\n  real :: x(n)\n"
             "  character(len=10) :: s = 'it''s ! ok'\n  type :: t\n    !! type doc\n    integer :: c\n  end type t\ncontains\n"
             "  function f(a, b) result(r)\n    !! function doc\n    integer, intent(in) :: a, b\n    integer :: r\n    r = a + b\n    if (a > b) call g(r, a, b)\n  end function f\n"
             "  subroutine g(x1, x2, x3)\n    integer :: x1, x2, x3\n    print *, 'text with ! and '' quote', x1\n  end subroutine g\nend module docs\n")
    progs.append(("extra/docs", extra))
    longdoc = ("subroutine advance(dt, state)\n  !! advances the state by one step of the given size and stores the diagnostics afterwards for later use\n"
               "  real, intent(in) :: dt\n    !! the step size, which has to be strictly positive here because the scheme is explicit in time\n"
               "  real, intent(inout) :: state(3)\n  !! short\n  state = state + dt\nend subroutine advance\n")
    progs.append(("extra/longdoc", longdoc))
    return progs


def pair_case(args):
    name, text, seed, limit = args
    rng = random.Random(seed)
    fixed = to_fixed(text, rng, limit)
    try:
        a = fordrun.project({"prog.f90": text})
        ext = (".f", ".for", ".F", ".FOR")[seed % 4]          # every extension that means fixed form by default
        b = fordrun.project({"prog" + ext: fixed}, fixed_length_limit=limit)
        ta, tb = tree.project_tree(a), tree.project_tree(b)
        for t in (ta, tb):
            for f in t["files"]:
                f["name"] = "prog"
        d = tree.diff(ta, tb)
    except Exception as ex:
        d = [f"FORD failed: {type(ex).__name__}: {ex}"]
    return {"name": name, "seed": seed, "diff": d, "fixed": fixed if d else None}


def include_pair(_):
    """A fixed-form file that INCLUDEs a fixed-form file with a line wider than 72 columns, length limit off, against free form."""
    wide_decl = "real :: spacing_x, spacing_y, spacing_z, stretching, a_rather_long_name_for_padding"
    free = {"grid.f90": "module grid\n  implicit none\n  include 'decl.inc'\nend module grid\n", "decl.inc": "  " + wide_decl + "\n  integer :: nx\n"}
    fixed = {"grid.f": "      module grid\n      implicit none\n      include 'decl.inc'\n      end module grid\n", "decl.inc": "      " + wide_decl + "\n      integer :: nx\n"}
    assert len("      " + wide_decl) > 72
    try:
        a = fordrun.project(free)
        b = fordrun.project(fixed, fixed_length_limit=False)
        va = sorted(v.name for v in a.modules[0].variables) if a.modules else None
        vb = sorted(v.name for v in b.modules[0].variables) if b.modules else None
        return None if va == vb and va else f"included fixed-form file with a wide line, length limit off: free form declares {va}, fixed form {vb}"
    except Exception as ex:
        return f"FORD failed: {type(ex).__name__}: {ex}"


def validate_conv(runs, fdev):
    d = tlc.scratch_dir("verif-c14t-")
    try:
        tf = os.path.join(d, "runs.json")
        json.dump({"runs": runs}, open(tf, "w"))
        mod, cfg = tlc.make_model(d, "FixedForm_Trace", consts(fdev), spec="TSpec", postcondition="AllConsumed")
        res = tlc.run(mod, cfg, workers=1, env={"TRACE_FILE": tf}, timeout=1800)
        vs = []
        for line in res.output.splitlines():
            m = re.search(r'<<"VERDICT", "(.*)">>$', line.strip())
            if m:
                vs.append(json.loads(m.group(1).encode().decode("unicode_escape")))
        if len(vs) != len(runs):
            raise tlc.TLCFailure(f"FixedForm_Trace: {len(runs)} runs, {len(vs)} verdicts\n{res.output[-800:]}")
        return vs
    finally:
        shutil.rmtree(d, ignore_errors=True)


def run(tier, seed, ck: Check):
    big = tier == "thorough"
    fdev = as_built_fdev()
    scratch = tlc.scratch_dir("verif-c14-")
    try:
        mod, cfg = tlc.make_model(scratch, "FixedForm", consts(frozenset(), MaxCost=1), name="MCvac", spec="Spec", invariants=["NeverContinued"])
        if tlc.run(mod, cfg, workers=8, timeout=600).ok:
            raise tlc.TLCFailure("vacuity guard NeverContinued not violated")
        # design: the converter without deviations, composed with the reader, yields the logical content
        cases = []
        for limit in (True, False):
            mod, cfg = tlc.make_model(scratch, "FixedForm", consts(frozenset(), MaxCost=3 if big else 2, LengthLimit=limit), name=f"MCd{int(limit)}",
                                      spec="Spec", invariants=["Equivalent"])
            dump = os.path.join(scratch, f"gen{int(limit)}")
            r = tlc.run(mod, cfg, workers=16, dump=dump, timeout=3000)
            if not r.ok:
                raise tlc.TLCFailure(f"FixedForm: converter without deviations violates {r.violated}")
            cs = [c for c in pool.pmap(_parse_block, tlc.read_dump_blocks(r.dump_file), chunksize=2000) if c]
            os.remove(r.dump_file)
            for c in cs:
                c["limit"] = limit
            cases += cs
            ck.coverage["states"] = ck.coverage.get("states", 0) + r.distinct
            ck.coverage["transitions"] = ck.coverage.get("transitions", 0) + r.generated
    finally:
        shutil.rmtree(scratch, ignore_errors=True)
    seen, uniq = set(), []
    for c in cases:
        k = (c["limit"], "\n".join(c["lines"]))
        if k not in seen:
            seen.add(k)
            uniq.append(c)
    if not big:
        uniq = [c for c in uniq if zlib.crc32("\n".join(c["lines"]).encode()) % 8 == seed % 8]
    if big and len(uniq) > 150000:
        uniq = [c for c in uniq if zlib.crc32("\n".join(c["lines"]).encode()) % (len(uniq) // 150000 + 1) == 0]
    results = pool.pmap(replay_case, uniq, chunksize=200)
    runs = []
    for idx, (c, (ok, yields, err, conv)) in enumerate(zip(uniq, results)):
        ck.count()
        if len(c["lines"]) >= 2:
            ck.nontrivial_case(str(c["limit"]) + "\n".join(c["lines"]))
        if c["limit"] and c["lines"]:
            runs.append({"id": idx, "lines": [list(l) for l in c["lines"]], "conv": [list(l) for l in conv]})
        if not ok:
            def continued_next(i):
                # the next line that is neither blank nor a comment line is a continuation line
                for nl in c["lines"][i + 1:]:
                    if not nl.strip() or nl[:1] in "cC*!":
                        continue
                    return len(nl) >= 6 and nl[5] not in " 0"
                return False
            inline_amp = any("!" in l and continued_next(i) for i, l in enumerate(c["lines"]) if l[:1] not in "cC*!")
            if "InlineAmp" in fdev and inline_amp and ck.known_finding("C14-F1"):
                continue
            ck.violation("fixed-reader", {"lines": c["lines"], "limit": c["limit"]}, expected=c02.expected_items(c["logical"]), observed=yields,
                         detail=f"fixed-form lines {c['lines']!r} (limit={c['limit']}): reader gave {yields!r}{' error ' + err if err else ''}, "
                                f"free-form equivalent is {c02.expected_items(c['logical'])!r}")
    # the repository's own fixed-form file
    import ford.fixed2free2 as ff
    p = os.path.join(common.REPO, "example", "src", "ford_f77_example.f")
    if os.path.exists(p):
        src = open(p).read()
        if all(ord(ch) < 127 for ch in src) and "\t" not in src:
            conv = [l.rstrip("\n") for l in ff.convertToFree(iter(src.splitlines(keepends=True)), True)]
            runs.append({"id": len(uniq), "lines": [list(l) for l in src.splitlines()], "conv": [list(l) for l in conv]})
    sample = runs if big else [r for r in runs if r["id"] % 5 == seed % 5 or r["id"] >= len(uniq)]
    vs = []
    B = 3000
    from concurrent.futures import ThreadPoolExecutor
    with ThreadPoolExecutor(max_workers=8) as ex:
        for part in ex.map(lambda b: validate_conv(b, fdev), [sample[i:i + B] for i in range(0, len(sample), B)]):
            vs += part
    ck.coverage["traces_validated_against_impl"] = len(vs)
    drift = [v for v in vs if v["bad"]]
    ck.coverage["converter_model_drift"] = len(drift)
    if drift:
        byid = {r["id"]: r for r in sample}
        v = drift[0]
        ck.notes["converter_model_drift_example"] = {"input": ["".join(l) for l in byid[v["id"]]["lines"]], "line": v["bad"],
                                                      "model": "".join(v["modelAt"]), "observed": "".join(v["obsAt"])}
    # the trace spec is bound to what was recorded: one corrupted field -> that run rejected
    okruns = {v["id"] for v in vs if not v["bad"]}
    good = [r_ for r_ in sample if r_["id"] in okruns and r_["conv"] and any(r_["conv"])]
    corrupted = []
    for j, r_ in enumerate(good[:: max(1, len(good) // 20)][:20]):
        r2 = json.loads(json.dumps(r_)); r2["id"] = j
        k_ = max(range(len(r2["conv"])), key=lambda t: len(r2["conv"][t]))
        if j % 2 == 0:
            r2["conv"][k_] = r2["conv"][k_] + list(" &")                # a continuation mark that the converter did not write
        else:
            r2["conv"] = r2["conv"][:k_] + r2["conv"][k_ + 1:]            # one converted line lost
        corrupted.append(r2)
    if corrupted:
        cv = validate_conv(corrupted, fdev)
        if [v["id"] for v in cv if not v["bad"]]:
            raise tlc.TLCFailure(f"FixedForm_Trace accepted corrupted runs {[v['id'] for v in cv if not v['bad']]}: the trace spec does not bind")
        ck.coverage["corrupted_traces_rejected"] = len(cv)
    # pairs: whole programs in both forms
    progs = corpus()
    nseeds = 40 if big else 6
    jobs = [(n, t, seed * 1000 + s, (s % 3 != 0)) for (n, t) in progs for s in range(nseeds)]
    for r_ in pool.pmap(pair_case, jobs, chunksize=4):
        ck.count()
        ck.nontrivial_case(f"pair:{r_['name']}:{r_['seed']}")
        if r_["diff"]:
            if "InlineAmp" in fdev and _inline_amp_text(r_["fixed"]) and ck.known_finding("C14-F1"):
                continue
            ck.violation("fixed-vs-free", {"program": r_["name"], "seed": r_["seed"]}, observed=r_["diff"][:5],
                         detail=f"{r_['name']} (layout seed {r_['seed']}): fixed-form tree differs from free-form tree: {r_['diff'][:2]}", extra={"fixed": r_["fixed"]})
    ck.count()
    ck.nontrivial_case("include-pair")
    inc = pool.pmap(include_pair, [0, 1, 2, 3], chunksize=1)[0]
    if inc:
        ck.violation("fixed-vs-free", {"program": "include-pair"}, detail=inc)
    ck.coverage["pair_programs"] = len(progs)
    ck.sample({"fixed_lines": uniq[len(uniq) // 2]["lines"], "logical": uniq[len(uniq) // 2]["logical"]})
    ck.sample({"program": progs[0][0], "fixed_rendering": to_fixed(progs[0][1], random.Random(1))})
    ck.assumptions += [
        "generated fixed-form text is valid: statement text in columns 7-72, labels in 1-5, continuation character not blank/0",
        "doc comments in fixed form start with '!' in column 1 or stand inline after the statement",
        "the free-form corpus for the pair check has one statement per line and no continuation (the renderer breaks lines itself)",
        "tab-formatted and OpenMP-sentinel lines are not generated",
    ]


def _inline_amp_text(fixed):
    lines = (fixed or "").splitlines()
    for i, l in enumerate(lines[:-1]):
        if l[:1] in "cC*!" or len(l) <= 6:
            continue
        code, doc = split_inline_doc(l[6:])
        if doc:
            for nxt in lines[i + 1:]:
                if nxt[:1] in "cC*!" or not nxt.strip():
                    continue
                if len(nxt) >= 6 and nxt[5] not in " 0":
                    return True
                break
    return False


def replay_file(path, ck):
    rec = json.load(open(path))
    c = rec["case"]
    ck.count(); ck.nontrivial_case("r1"); ck.nontrivial_case("r2")
    if rec["kind"] == "fixed-reader":
        yields, err, conv = read_fixed(c["lines"], c["limit"])
        obs = c02.observed_items(yields, MARKS["doc"])
        ck.sample({"lines": c["lines"], "yields": yields})
        if err or [list(x) for x in obs] != [list(x) for x in rec["expected"]]:
            ck.violation("fixed-reader", c, expected=rec["expected"], observed=yields, detail=f"reader gave {yields!r}")
    else:
        text = dict(corpus())[c["program"]]
        r_ = pair_case((c["program"], text, c["seed"], True))
        ck.sample({"program": c["program"], "diff": r_["diff"][:3]})
        if r_["diff"]:
            ck.violation("fixed-vs-free", c, observed=r_["diff"][:5], detail=str(r_["diff"][:2]))


def main():
    a = common.args()
    ck = Check(PROP, "model_checking", a.tier, a.seed)
    try:
        if a.replay:
            replay_file(a.replay, ck)
        else:
            run(a.tier, a.seed, ck)
    except tlc.TLCFailure as e:
        return machinery_failure(PROP, str(e))
    return ck.finish(rule="cases = complete fixed-form layouts of spec/FixedForm.tla (<=2 statements x <=3 tokens, feature budget 2-3: labels, 5 continuation "
                          "characters, comment-line styles, short/long blank lines, inline comments/docs, sequence-field text; length limit on and off) read by "
                          "FortranReader(fixed=True) + corpus programs rendered in both forms with seeded random layout; non-trivial iff >= 2 physical "
                          "lines / any pair; distinct by text", exhaustive=False)


if __name__ == "__main__":
    sys.exit(main())
