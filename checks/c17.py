#!/venv/bin/python
"""C17 - static pages mirror the page directory, in the documented order.

Spec: spec/PageTree.tla (Ref = pages, order, copied files per directory features; Impl = get_page_tree walk;
ImplRefines, OnePagePerTitledMd, UntitledSkippedSiblingsKept, OrderedFirst).  Every feature combination
TLC enumerates is materialised on disk, built by the real FORD, and the files under <output>/page/, the
navigation order and every link / alias on every page are compared with Ref.
"""
from __future__ import annotations
import json
import os
import re
import shutil
import sys
import zlib

sys.path.insert(0, os.path.dirname(os.path.abspath(__file__)))
import common  # noqa: E402
from vlib import tlc, tlaval, pool, fordrun, site  # noqa: E402
from vlib.verdict import Check, machinery_failure, load_known  # noqa: E402

PROP = "C17"
SRC = "module m\n  !! module m\n  integer :: x\nend module m\n"


def page(title, body, extra_meta=()):
    meta = ([f"title: {title}"] if title else []) + list(extra_meta)
    head = ("---\n" + "\n".join(meta) + "\n---\n\n") if meta else ""
    return head + body + "\n"


LINKS = "Aliases: [home](|url|/index.html) [pages](|page|/index.html) ![pic](|media|/pic.png). Source: [[m]].\n"


def materialise(t):
    f = {"src/m.f90": SRC, "media/pic.png": "PNG"}
    meta = []
    order = {"ba": ["b.md", "a.md"], "sub_first": ["sub"], "b_only": ["b.md"], "none": []}[t["ord"]]
    meta += [f"ordered_subpage: {x}" for x in order]
    if t["rootcopy"]:
        if t.get("missfirst"):
            meta.append("copy_subdir: nosuchdir")
        meta.append("copy_subdir: assets")
    rel = []
    if t["a"] == 1:
        rel.append("[a](a.html)")
    if t["sub"] == 1:
        rel.append("[sub](sub/index.html)")
    f["pages/index.md"] = page("Top", "TOPWORD " + LINKS + " ".join(rel), meta)
    for n in ("a", "b"):
        if t[n]:
            f[f"pages/{n}.md"] = page(f"Page {n.upper()}" if t[n] == 1 else None, f"{n.upper()}WORD [back](index.html) " + LINKS)
    if t.get("dotted"):
        f["pages/a.b.md"] = page("Page A dot B", "ABDOTWORD [back](index.html) " + LINKS)
    if t["txt"]:
        f["pages/notes.txt"] = "plain notes\n"
    if t["hid"]:
        f["pages/.hidden.md"] = page("Hidden", "HIDDENWORD")
    if t["bak"]:
        f["pages/b.md~"] = page("Backup", "BACKUPWORD")
    if t["sub"]:
        smeta = ["copy_subdir: assets2"] if t["subcopy"] else []
        if t["sub"] == 1:
            f["pages/sub/index.md"] = page("Sub", "SUBWORD [up](../index.html) " + LINKS + (" [c](c.html)" if t["c"] == 1 else ""), smeta)
        else:
            f["pages/sub/readme.txt"] = "a directory without index.md\n"
        if t["c"]:
            f["pages/sub/c.md"] = page("Page C" if t["c"] == 1 else None, "CWORD [up](../index.html) [sub](index.html) " + LINKS
                                       + (" [data](cdata/x.dat)" if t.get("ccopy") else ""), ["copy_subdir: cdata"] if t.get("ccopy") else [])
        if t.get("ccopy"):
            f["pages/sub/cdata/x.dat"] = "DATA"
        if t["stxt"]:
            f["pages/sub/d.txt"] = "data\n"
        if t.get("subassets"):
            f["pages/sub/assets/index.md"] = page("Sub Assets", "SUBASSETSWORD [up](../index.html)")
            f["pages/sub/assets/pic.png"] = "PNG3"
        if t["assets2"]:
            f["pages/sub/assets2/index.md"] = page("Assets Two", "ASSETS2WORD")
            f["pages/sub/assets2/img2.png"] = "PNG2"
    if t["assets"]:
        f["pages/assets/img.png"] = "PNG"
        f["pages/assets/stray.md"] = page("Stray", "STRAYWORD")
    return f


def evaluate(case):
    t = case["t"]
    files = materialise(t)
    bad = []
    # two spellings of the same page directory, chosen by the case's hash: (1) the project is written in Latin-1 and every page holds
    # a non-ASCII letter (`encoding: iso-8859-1`); (2) the root's ordered_subpage list also names index.md itself (harmless)
    h = zlib.crc32(("spelling" + json.dumps(t, sort_keys=True)).encode())      # independent of the hash that slices the quick tier
    latin, ordidx = bool(h & 1), bool(h & 2)
    if ordidx and "pages/index.md" in files:
        txt = files["pages/index.md"]
        files["pages/index.md"] = txt.replace("---\n", "---\nordered_subpage: index.md\n", 1)
    extra = {}
    if latin:
        files = {k: ((v + "\ncaf\u00e9 \u00fcber\n").encode("iso-8859-1") if (k.startswith("pages/") and k.endswith(".md") and isinstance(v, str)) else v) for k, v in files.items()}
        extra = {"encoding": "iso-8859-1"}
    with fordrun.tempdir("verif-c17-") as d:
        fordrun.write_files(d, files)
        ok, out, err = site.run_inproc(d, dict({"page_dir": "./pages", "media_dir": "./media", "search": False}, **extra))
        if not ok:
            return {"bad": [("abort", f"FORD failed: {type(err).__name__}: {err}")], "files": files, "out": out[-300:]}
        pdir = os.path.join(d, "doc", "page")
        html, other = set(), set()
        for dp, dn, fn in os.walk(pdir):
            for n in fn:
                rel = os.path.relpath(os.path.join(dp, n), pdir)
                (html if rel.endswith(".html") else other).add(rel)
        want_pages = list(case["pages"])
        if html != set(want_pages):
            bad.append(("pages", f"pages written {sorted(html)}, page directory implies {sorted(want_pages)}"))
        if other != set(case["files"]):
            bad.append(("files", f"files copied {sorted(other)}, expected {sorted(case['files'])}"))
        # navigation order on the top page
        top = os.path.join(pdir, "index.html")
        if os.path.exists(top):
            pg = site.parse_page(os.path.join(d, "doc"), "page/index.html", keep_soup=True)
            toc = pg.soup.find(id="sidebar-toc")
            nav = []
            if toc is not None:
                for a in toc.find_all("a"):
                    href = a.get("href", "")
                    nav.append(os.path.normpath(os.path.join("page", href)).replace("page/", "", 1) if href else "")
            want_nav = want_pages if len(want_pages) > 1 else []
            if nav != want_nav:
                bad.append(("order", f"navigation lists {nav}, documented order is {want_nav}"))
        # every link and alias from every depth
        pages = {rel: site.parse_page(os.path.join(d, "doc"), rel) for rel in site.html_files(os.path.join(d, "doc")) if rel.startswith("page/")}
        for p in site.link_problems(os.path.join(d, "doc"), pages=pages)[:3]:
            bad.append(("link", f"{p['page']}: {p['url']} - {p['why']}"))
        for rel, pg in pages.items():
            if "|url|" in pg.text or "|page|" in pg.text or "|media|" in pg.text:
                bad.append(("alias", f"{rel}: alias not substituted"))
        # untitled files are reported
        for n, key in (("a", "a.md"), ("b", "b.md"), ("c", "c.md")):
            if t.get(n) == 2 and (n != "c" or t["sub"] == 1) and key not in out:
                bad.append(("not-reported", f"{key} has no title but is not named in the output: {out[-200:]!r}"))
    return {"bad": bad, "files": files if bad else None}


def _parse_block(block):
    if '/\\ phase = "done"' not in block:
        return None
    st = tlaval.parse_state(block)
    o = st["out"]
    return {"t": dict(st["t"]), "pages": list(o["pages"]), "files": sorted(o["files"]), "ipages": list(o["ipages"]), "ifiles": sorted(o["ifiles"])}


def run(tier, seed, ck: Check):
    big = tier == "thorough"
    dev = frozenset({"ParentCopySubdir"}) if "C17-F1" in load_known(PROP) else frozenset()
    scratch = tlc.scratch_dir("verif-c17m-")
    try:
        mod, cfg = tlc.make_model(scratch, "PageTree", {"Dev": frozenset()}, name="MCd", spec="Spec",
                                  invariants=["ImplRefines", "OnePagePerTitledMd", "UntitledSkippedSiblingsKept", "OrderedFirst"])
        r0 = tlc.run(mod, cfg, workers=8, timeout=900)
        if not r0.ok:
            raise tlc.TLCFailure(f"PageTree: {r0.violated} violated")
        mod, cfg = tlc.make_model(scratch, "PageTree", {"Dev": frozenset()}, name="MCvac", spec="Spec", invariants=["NeverNested"])
        if tlc.run(mod, cfg, workers=4, timeout=600).ok:
            raise tlc.TLCFailure("vacuity guard NeverNested not violated")
        mod, cfg = tlc.make_model(scratch, "PageTree", {"Dev": dev}, name="MCg", spec="Spec")
        dump = os.path.join(scratch, "gen")
        r = tlc.run(mod, cfg, workers=8, dump=dump, timeout=900)
        cases = [c for c in pool.pmap(_parse_block, tlc.read_dump_blocks(r.dump_file), chunksize=500) if c]
        os.remove(r.dump_file)
        ck.coverage["states"] = r0.distinct + r.distinct
        ck.coverage["transitions"] = r0.generated + r.generated
        ck.coverage["trees"] = len(cases)
    finally:
        shutil.rmtree(scratch, ignore_errors=True)
    if not big:
        cases = [c for c in cases if zlib.crc32(json.dumps(c["t"], sort_keys=True).encode()) % 50 == seed % 50]
    for c, r_ in zip(cases, pool.pmap(evaluate, cases, chunksize=2)):
        ck.count()
        ck.nontrivial_case(json.dumps(c["t"], sort_keys=True))
        for tag, b in r_["bad"][:3]:
            # C17-F1: a directory named in its own page's copy_subdir is still walked as a page sub-tree
            if tag in ("pages", "order", "files") and c["t"]["subcopy"] and c["pages"] != c["ipages"] and ck.known_finding("C17-F1"):
                continue
            ck.violation(tag, c["t"], expected={"pages": c["pages"], "files": c["files"]}, detail=b, extra={"tree": sorted(r_["files"] or [])})
    ck.coverage["traces_validated_against_impl"] = 0
    if cases:
        ck.sample({"features": cases[0]["t"], "tree": sorted(materialise(cases[0]["t"])), "expected_pages": cases[0]["pages"]})
    ck.assumptions += [
        "ordered_subpage names existing entries only (the guide is silent on missing ones); project-level copy_subdir is not varied",
        "the page directory is two levels deep (root, sub, asset directories); every page carries the |url| |page| |media| aliases, a [[m]] link and relative links to its neighbours",
    ]


def replay_file(path, ck):
    rec = json.load(open(path))
    t = rec["case"]
    r_ = evaluate({"t": t, "pages": rec["expected"]["pages"], "files": rec["expected"]["files"]})
    ck.count(); ck.nontrivial_case("r1"); ck.nontrivial_case("r2")
    ck.sample({"features": t, "problems": r_["bad"]})
    for tag, b in r_["bad"][:3]:
        ck.violation(tag, t, expected=rec["expected"], detail=b)


def main():
    a = common.args()
    ck = Check(PROP, "model_checking", a.tier, a.seed)
    try:
        if a.replay:
            replay_file(a.replay, ck)
        else:
            run(a.tier, a.seed, ck)
    except tlc.TLCFailure as e:
        return machinery_failure(PROP, str(e))
    return ck.finish(rule="cases = feature combinations of spec/PageTree.tla (titled / untitled / absent pages, non-Markdown, hidden and backup files, "
                          "sub-directory with / without index.md, ordered_subpage variants, copy_subdir at two levels), each materialised and built; every "
                          "combination is a distinct non-trivial case", exhaustive=(a.tier == "thorough"))


if __name__ == "__main__":
    sys.exit(main())
