#!/venv/bin/python
"""C07 - cross-references resolve to the entity Fortran scoping designates.

Spec: spec/Nesting.tla.  For each name class (type / abstract interface / procedure) TLC enumerates
every set of scoping units declaring the name x every placement of `use m2`; each case is rendered
(3 files: m1.f90 with P1/I1/P2, m2.f90, e1.f90), correlated by the real FORD, and every reference slot
of every scoping unit compared with Ref.
"""
from __future__ import annotations
import itertools
import json
import os
import re
import shutil
import sys

sys.path.insert(0, os.path.dirname(os.path.abspath(__file__)))
import common  # noqa: E402
from vlib import tlc, tlaval, pool, fordrun  # noqa: E402
from vlib.verdict import Check, machinery_failure, load_known  # noqa: E402

PROP = "C07"
FINDING = {"SharedTables": "C07-F1", "HostOverridesLocal": "C07-F2"}
NAME = {"type": "t", "absint": "f", "proc": "g"}
SITES = ("M1", "P1", "I1", "P2", "M2", "E1")
STUB = "mpi_f08"


def as_built_dev():
    open_ids = set(load_known(PROP))
    return tuple(d for d in FINDING if FINDING[d] in open_ids)


def _ref(cls, up):
    n = NAME[cls]
    return n.upper() if up else n


def decl_spec(cls, site):
    """Specification-part lines declaring the class's name in `site` (types and abstract interfaces)."""
    n = NAME[cls]
    s = site.lower()
    if cls == "type":
        return [f"type :: {n}", f"  integer :: in_{s}", f"end type {n}"]
    if cls == "absint":
        return ["abstract interface", f"  subroutine {n}(in_{s})", f"    integer :: in_{s}", f"  end subroutine {n}", "end interface"]
    return []


def refs_spec(cls, site, up):
    """Specification-part reference slots of `site`."""
    s = site.lower()
    r = _ref(cls, up)
    if cls == "type":
        return [f"type({r}) :: vt_{s}", f"type, extends({r}) :: ch_{s}", f"  integer :: more_{s}", f"end type ch_{s}"]
    return [f"procedure({r}), pointer :: pp_{s}"]


def render(cls, decl, use_at, up, via3=False, renaway=False, twouse=False):
    n = NAME[cls]
    # twouse: a plain USE followed by a second USE statement of the same module that adds a local name for the entity
    use = lambda site: ([f"use m2, zz_alias => {n}"] if renaway else ["use m2", f"use m2, only: zz_alias => {n}"] if twouse else ["use m2"]) if use_at == site else []
    procdecl = lambda site: ([f"subroutine {n}()", f"  integer :: in_{site.lower()}", f"end subroutine {n}"]
                             if cls == "proc" and site in decl else [])
    call = [f"call {_ref(cls, up)}()"] if cls == "proc" else []
    ind = lambda ls, k=1: ["  " * k + x for x in ls]

    def alias_refs(site):
        if not (twouse and use_at == site):
            return []
        return [f"type(zz_alias) :: va_{site.lower()}"] if cls == "type" else [f"procedure(zz_alias), pointer :: pa_{site.lower()}"]

    def unit_body(site):
        return use(site) + ["implicit none"] + (decl_spec(cls, site) if site in decl else []) + refs_spec(cls, site, up) + alias_refs(site)

    m1 = ["module m1"] + ind(unit_body("M1"))
    m1_sees = "M1" in decl or (use_at == "M1" and "M2" in decl and not renaway)
    if cls == "proc" and m1_sees:      # module-level slots: binding target, final, generic specific (must exist in valid Fortran)
        r = _ref(cls, up)
        m1 += ind(["type :: holder", "  integer :: h", "contains", f"  procedure, nopass :: bnd => {r}", f"  final :: {r}", "end type holder",
                   "interface gen", f"  module procedure {r}", "end interface gen",
                   # a deferred binding has no target: its name denotes nothing, whatever procedure of that name is visible
                   "abstract interface", "  subroutine dfi(self)", "    import :: dholder", "    class(dholder) :: self", "  end subroutine dfi", "end interface",
                   "type, abstract :: dholder", "  integer :: dh", "contains", f"  procedure(dfi), deferred :: {r}", "end type dholder"])
    m1 += ["contains"]
    blk = ind(["blk: block"] + ind(decl_spec(cls, "B1")) + ["end block blk"]) if "B1" in decl else []
    p1 = ["subroutine p1()"] + ind(unit_body("P1")) + ind(call) + blk + ["contains"]
    p1 += ind(["subroutine i1()"] + ind(unit_body("I1")) + ind(call) + ["end subroutine i1"])
    p1 += ind(procdecl("P1")) + ["end subroutine p1"]
    p2 = ["subroutine p2()"] + ind(unit_body("P2")) + ind(call)
    if procdecl("P2"):
        p2 += ["contains"] + ind(procdecl("P2"))
    p2 += ["end subroutine p2"]
    m1 += ind(p1) + ind(p2) + ind(procdecl("M1")) + ["end module m1"]
    m2 = ["module m2", "  implicit none"] + ind(decl_spec(cls, "M2") if "M2" in decl else [])
    if cls == "proc" and "M2" in decl:
        m2 += ["contains"] + ind(procdecl("M2"))
    m2 += ["end module m2"]
    extra = {}
    if via3:        # m2 only re-exports the entity, which is declared in a third module
        extra["m3.f90"] = "\n".join(m2).replace("module m2", "module m3") + "\n"
        m2 = ["module m2", "  use m3", "  implicit none", "end module m2"]
    e1 = ["subroutine e1()"] + ind(unit_body("E1")) + ind(call) + ["end subroutine e1"]
    return dict({"m1.f90": "\n".join(m1) + "\n", "m2.f90": "\n".join(m2) + "\n", "e1.f90": "\n".join(e1) + "\n"}, **extra)


def ident(obj):
    if isinstance(obj, str):
        return "unresolved"
    par = getattr(obj, "parent", None)
    pn = getattr(par, "name", "?").lower()
    if pn in ("m3", STUB):
        return "M2"            # the entity m2 re-exports / m2 under its stub name
    return pn.upper() if pn.upper() in SITES else pn


def observe(cls, files, order, alias_site=None):
    p = fordrun.project(files, order=order)
    mods = {m.name.lower(): m for m in p.modules}
    if "m1" not in mods:
        return {"_error": "module m1 not reported"}
    m1 = mods["m1"]
    subs = {s.name.lower(): s for s in m1.subroutines}
    if "p1" not in subs or "p2" not in subs:
        return {"_error": "p1/p2 not reported"}
    i1 = {s.name.lower(): s for s in subs["p1"].subroutines}.get("i1")
    e1 = next((x for x in p.procedures if x.name.lower() == "e1"), None)
    if i1 is None or e1 is None:
        return {"_error": "i1/e1 not reported"}
    scopes = {"M1": m1, "P1": subs["p1"], "I1": i1, "P2": subs["p2"], "E1": e1}
    obs = {}
    for site, sc in scopes.items():
        s = site.lower()
        vars_ = {v.name.lower(): v for v in sc.variables}
        if cls == "type":
            v = vars_.get(f"vt_{s}")
            obs[f"{site}:vartype"] = ident(v.proto[0]) if v is not None and v.proto else "missing"
            ch = next((t for t in sc.types if t.name.lower() == f"ch_{s}"), None)
            obs[f"{site}:extends"] = ident(ch.extends) if ch is not None and ch.extends is not None else "missing"
        else:
            v = vars_.get(f"pp_{s}")
            obs[f"{site}:procptr"] = ident(v.proto[0]) if v is not None and v.proto else "missing"
        if alias_site == site:
            v = vars_.get(f"va_{s}" if cls == "type" else f"pa_{s}")
            obs[f"{site}:alias"] = ident(v.proto[0]) if v is not None and v.proto else "missing"
        if cls == "proc" and site != "M1":
            cs = [c for c in sc.calls if (c if isinstance(c, str) else c.name).lower() == NAME[cls]]
            obs[f"{site}:call"] = ident(cs[0]) if cs else "missing"
    holder = next((t for t in m1.types if t.name.lower() == "holder"), None)
    if cls == "proc" and holder is not None:
        b = holder.boundprocs[0].bindings[0] if holder.boundprocs else "missing"
        obs["M1:binding"] = ident(b) if b != "missing" else "missing"
        f = holder.finalprocs[0].procedure if holder.finalprocs else "missing"
        obs["M1:final"] = ident(f) if f != "missing" else "missing"
        gen = next((i for i in m1.interfaces if i.name and i.name.lower() == "gen"), None)
        if gen is None:
            obs["M1:generic"] = "missing"
        else:
            mp = gen.modprocs[0].procedure if gen.modprocs else "missing"
            obs["M1:generic"] = ident(mp) if mp != "missing" else "missing"
        dh = next((t for t in m1.types if t.name.lower() == "dholder"), None)
        if dh is not None and dh.boundprocs:
            tg = dh.boundprocs[0].bindings[0] if dh.boundprocs[0].bindings else "none"
            obs["M1:deferred"] = ident(tg) if not isinstance(tg, str) else "unresolved"
    return obs


def expected(cls, ref):
    exp = {}
    for site, tgt in ref.items():
        if cls == "type":
            exp[f"{site}:vartype"] = tgt
            exp[f"{site}:extends"] = tgt
        else:
            exp[f"{site}:procptr"] = tgt
        if cls == "proc" and site != "M1":
            exp[f"{site}:call"] = tgt
    if cls == "proc" and ref["M1"] != "unresolved":
        for slot in ("binding", "final", "generic"):
            exp[f"M1:{slot}"] = ref["M1"]
        exp["M1:deferred"] = "unresolved"
    return exp


def model_prediction(cls, case):
    """What the as-built model (with the open deviations) predicts for every slot."""
    late, early = case["impl"], case["early"]
    pred = expected(cls, late)
    if cls == "type":
        for site, tgt in early.items():
            pred[f"{site}:extends"] = tgt
    return pred


def evaluate(case):
    cls = case["cls"]
    out = []
    names = ["e1.f90", "m1.f90", "m2.f90"]
    orders = [list(p) for p in itertools.permutations(names)] if case["tier"] == "thorough" else [names, names[::-1]]
    variants = [(False, False), (True, False)]
    if "M2" in case["decl"] and case["useAt"] != "none":
        variants.append((False, True))
        variants.append((False, "stub"))        # m2 is called like a module FORD also knows as external (mpi_f08)
        if cls in ("type", "absint"):
            variants.append((False, "twouse"))      # `use m2` and then `use m2, only: zz_alias => name`: both names denote m2's entity
        if case.get("ref_nouse"):
            variants.append((False, "renaway"))   # `use m2, zz_alias => name`: the name itself is not made accessible by this USE
    for up, via3 in variants:
        files = render(cls, set(case["decl"]), case["useAt"], up, via3 is True, renaway=(via3 == "renaway"), twouse=(via3 == "twouse"))
        if via3 == "stub":
            files = {k: re.sub(r"\bm2\b", STUB, v) for k, v in files.items()}
        names = sorted(files)
        orders = [list(p) for p in itertools.permutations(names)] if case["tier"] == "thorough" else [names, names[::-1]]
        for order in orders:
            try:
                obs = observe(cls, files, order, alias_site=case["useAt"] if via3 == "twouse" else None)
            except Exception as ex:
                obs = {"_error": f"{type(ex).__name__}: {ex}"}
            exp = expected(cls, case["ref_nouse"] if via3 == "renaway" else case["ref"])
            if via3 == "twouse":
                exp[f"{case['useAt']}:alias"] = "M2"
            bad = [(k, v, obs.get(k)) for k, v in exp.items() if obs.get(k) != v] if "_error" not in obs else [("_error", "", obs["_error"])]
            explained = False
            if bad and "_error" not in obs:
                pred = model_prediction(cls, case)
                explained = all(obs.get(k) == pred[k] for k in pred)
            out.append({"up": up, "via3": via3, "order": order, "bad": bad, "explained": explained, "files": files if bad else None, "obs": obs if bad else None})
    return out


_DONE = re.compile(r'/\\ phase = "done"')


def _parse_block(args):
    cls, block = args
    if not _DONE.search(block):
        return None
    st = tlaval.parse_state(block)
    o = st["out"]
    return {"cls": cls, "decl": sorted(st["decl"]), "useAt": st["useAt"], "ref": dict(o["ref"]), "impl": dict(o["impl"]), "early": dict(o["early"])}


def generate(scratch, cls, dev, ck):
    mod, cfg = tlc.make_model(scratch, "Nesting", {"Class": cls, "Dev": frozenset()}, name=f"MCd_{cls}", spec="Spec",
                              invariants=["ImplRefines", "InnermostWins", "SiblingInvisible", "UnresolvedStaysText", "BlockLocalInvisible"])
    r0 = tlc.run(mod, cfg, workers=4, timeout=600)
    if not r0.ok:
        raise tlc.TLCFailure(f"Nesting[{cls}]: design-level invariant {r0.violated} violated")
    mod, cfg = tlc.make_model(scratch, "Nesting", {"Class": cls, "Dev": frozenset(dev)}, name=f"MCg_{cls}", spec="Spec")
    dump = os.path.join(scratch, f"gen_{cls}")
    r = tlc.run(mod, cfg, workers=4, dump=dump, timeout=600)
    cases = [c for c in map(_parse_block, [(cls, b) for b in tlc.read_dump_blocks(r.dump_file)]) if c]
    os.remove(r.dump_file)
    ck.coverage["states"] = ck.coverage.get("states", 0) + r.distinct + r0.distinct
    ck.coverage["transitions"] = ck.coverage.get("transitions", 0) + r.generated + r0.generated
    ck.coverage.setdefault("models", {})[cls] = {"cases": len(cases)}
    return cases


def run(tier, seed, ck: Check):
    dev = as_built_dev()
    scratch = tlc.scratch_dir("verif-c07-")
    try:
        mod, cfg = tlc.make_model(scratch, "Nesting", {"Class": "type", "Dev": frozenset()}, name="MCvac", spec="Spec", invariants=["NeverShadow"])
        if tlc.run(mod, cfg, workers=2, timeout=300).ok:
            raise tlc.TLCFailure("vacuity guard NeverShadow not violated")
        cases = []
        for cls in ("type", "absint", "proc"):
            cases += generate(scratch, cls, dev, ck)
        nouse = {(c["cls"], tuple(sorted(c["decl"]))): c["ref"] for c in cases if c["useAt"] == "none"}
        for c in cases:
            c["tier"] = tier
            c["ref_nouse"] = nouse.get((c["cls"], tuple(sorted(c["decl"]))))     # Ref of the same declarations without the USE
        results = pool.pmap(evaluate, cases, chunksize=8)
        for c, rs in zip(cases, results):
            if len(c["decl"]) >= 2 or (c["decl"] and c["useAt"] != "none") or not c["decl"]:
                ck.nontrivial_case(json.dumps([c["cls"], c["decl"], c["useAt"]]))
            for r in rs:
                ck.count()
                if not r["bad"]:
                    continue
                if r["explained"]:
                    d = "HostOverridesLocal" if c["cls"] == "proc" else "SharedTables"
                    if d in dev and ck.known_finding(FINDING[d]):
                        continue
                ck.violation("scoping", {"cls": c["cls"], "decl": c["decl"], "useAt": c["useAt"], "up": r["up"], "via3": r["via3"], "order": r["order"]},
                             expected=expected(c["cls"], c["ref"]), observed=r["obs"],
                             detail="; ".join(f"{k}: FORD {o!r}, scoping rules {e!r}" for k, e, o in r["bad"][:4]), extra={"files": r["files"]})
        for c in cases[:: max(1, len(cases) // 4)][:4]:
            ck.sample({"class": c["cls"], "declared_in": c["decl"], "use_m2_in": c["useAt"], "ref": c["ref"],
                       "m1.f90": render(c["cls"], set(c["decl"]), c["useAt"], False)["m1.f90"]})
        ck.coverage["traces_validated_against_impl"] = 0
        ck.assumptions += [
            "a scoping unit never declares a name it also obtains by USE (illegal Fortran)",
            "references to names with no visible declaration are generated on purpose and must stay unresolved text",
            "reference slots: variable type, parent type (extends), procedure-pointer interface (abstract interface / procedure), call, and at module level binding target, final target, generic specific; structure constructors, submodule parents and separate module procedure interfaces are exercised by C01/C16 programs, not here",
            "identity of a resolved entity = name of its parent scoping unit; each case in 2 spellings (reference in lower / upper case) x file orders",
        ]
    finally:
        shutil.rmtree(scratch, ignore_errors=True)


def replay_file(path, ck):
    rec = json.load(open(path))
    c = rec["case"]
    files = rec.get("files") or render(c["cls"], set(c["decl"]), c["useAt"], c["up"], c.get("via3", False) is True, renaway=(c.get("via3") == "renaway"), twouse=(c.get("via3") == "twouse"))
    obs = observe(c["cls"], files, c["order"], alias_site=c["useAt"] if c.get("via3") == "twouse" else None)
    exp = rec["expected"]
    if c.get("via3") == "twouse":
        exp = dict(exp, **{f"{c['useAt']}:alias": "M2"})
    bad = [(k, v, obs.get(k)) for k, v in exp.items() if obs.get(k) != v]
    ck.count(); ck.nontrivial_case("r1"); ck.nontrivial_case("r2")
    ck.sample({"files": files, "observed": obs})
    if bad:
        ck.violation("scoping", c, expected=exp, observed=obs,
                     detail="; ".join(f"{k}: FORD {o!r}, scoping rules {e!r}" for k, e, o in bad[:4]), extra={"files": files})


def main():
    a = common.args()
    ck = Check(PROP, "model_checking", a.tier, a.seed)
    try:
        if a.replay:
            replay_file(a.replay, ck)
        else:
            run(a.tier, a.seed, ck)
    except tlc.TLCFailure as e:
        return machinery_failure(PROP, str(e))
    return ck.finish(rule="cases = every legal (declaring scoping units, placement of `use m2`) per name class from spec/Nesting.tla x 2 spellings x file "
                          "orders; non-trivial iff the name is declared in >=2 scoping units, or declared and USEd, or declared nowhere; distinct by "
                          "(class, declaring set, use placement)", exhaustive=True)


if __name__ == "__main__":
    sys.exit(main())
