#!/venv/bin/python
"""C19 - a run touches nothing outside its output directory.

Spec: spec/FsRun.tla (placements x crash points: TouchedUnderRoots, SourcesSurvive,
RefusedBeforeAnyDelete, RefusesWhenItMust) and spec/FsRun_Trace.tla.
Replay: for each placement of output_dir / graph_dir a sandbox tree is built, `python -m ford` is run
(i) to completion and (ii) with the k-th mutating file-system call made to fail (harness shim in the
child's PYTHONPATH), and the whole sandbox is compared before / after (content hash, mode, symlink
target): only paths under the resolved roots may differ.
"""
from __future__ import annotations
import hashlib
import json
import os
import re
import shutil
import stat
import subprocess
import sys

sys.path.insert(0, os.path.dirname(os.path.abspath(__file__)))
import common  # noqa: E402
from vlib import tlc, pool, fordrun, site  # noqa: E402
from vlib.verdict import Check, machinery_failure  # noqa: E402

PROP = "C19"
SHIM = os.path.join(common.ROOT, "vlib", "fsshim")

SRC = "module m\n  !! a module\n  integer :: x\ncontains\n  subroutine s()\n    !! a procedure\n  end subroutine s\nend module m\n"
SRC2 = "program p\n  use m\n  call s()\nend program p\n"

# abstract directories of the sandbox (FsRun.Dirs) and their parents
DIRS = {1: ("", 0), 2: ("proj", 1), 3: ("proj/src", 2), 4: ("proj/doc", 2), 5: ("proj/out", 2), 6: ("proj/out/html", 5),
        8: ("proj/real_out", 2), 9: ("elsewhere", 1), 10: ("elsewhere/abs_out", 9), 11: ("shared", 1), 12: ("shared/code", 11),
        13: ("proj/graphs", 2), 14: ("proj/lib", 2), 15: ("proj/lib/src", 14), 16: ("proj/app", 2), 17: ("elsewhere/gdir", 9)}

# name, output_dir as written, abstract out dir, src_dirs as written [(text, abstract dir, lexically below out?)], graph_dir (text, abstract) or None
PLACEMENTS = [
    ("sibling", "./doc", 4, [("./src", 3, False)], None),
    ("nested", "./out/html", 6, [("./src", 3, False)], None),
    ("absolute", "{T}/elsewhere/abs_out", 10, [("./src", 3, False)], None),
    ("symlink", "./link", 8, [("./src", 3, False)], None),
    ("dotdot", "./src/../doc", 4, [("./src", 3, False)], None),
    ("graphdir-inside", "./doc", 4, [("./src", 3, False)], ("./doc/graphs", 4)),
    ("graphdir-separate", "./doc", 4, [("./src", 3, False)], ("./graphs", 13)),
    ("graphdir-absolute", "./out/html", 6, [("./src", 3, False)], ("{T}/elsewhere/gdir", 17)),
    ("graphdir-above-src", "./doc", 4, [("./lib/src", 15, False)], ("./lib", 14)),      # graphs are ADDED to a directory that also holds the sources
    ("equal-src", "./src", 3, [("./src", 3, True)], None),
    ("above-src", ".", 2, [("./src", 3, True)], None),
    ("symlink-above-src", "./uplink", 2, [("./src", 3, False)], None),
    ("src-symlink-into-output", "../shared", 11, [("./srclink", 12, False)], None),
    ("first-src-inside", "./lib", 14, [("./lib/src", 15, True), ("./app", 16, False)], None),
    ("last-src-inside", "./lib", 14, [("./app", 16, False), ("./lib/src", 15, True)], None),
]


def build_sandbox(T, plc):
    name, out, outd, srcs, graph = plc
    files = {
        "canary.txt": "must survive\n",
        "proj/src/m.f90": SRC, "proj/src/p.f90": SRC2,
        "proj/lib/src/m.f90": SRC, "proj/lib/LICENSE": "keep me\n", "proj/app/p.f90": SRC2,
        "shared/code/m.f90": SRC, "shared/code/p.f90": SRC2, "shared/NOTES.txt": "keep me too\n",
        "proj/media/logo.txt": "media file\n", "proj/style.css": "body {}\n", "proj/fav.png": "PNG", "proj/mj.js": "// mathjax\n",
        "proj/pages/index.md": "---\ntitle: Pages\ncopy_subdir: data\n---\n\ntext\n", "proj/pages/data/table.dat": "1 2 3\n",
        "proj/pages/extra.txt": "extra\n",
        "proj/real_out/old.txt": "stale output\n", "proj/doc/old.html": "stale output\n", "elsewhere/abs_out/old.txt": "stale\n",
        "elsewhere/keep.txt": "not yours\n", "proj/out/keep.txt": "the parent of the nested output directory exists already\n",
    }
    fordrun.write_files(T, files)
    os.symlink("real_out", os.path.join(T, "proj", "link"))
    os.symlink(".", os.path.join(T, "proj", "uplink"))
    os.symlink("../shared/code", os.path.join(T, "proj", "srclink"))
    # links inside the directories FORD copies: to a file and a directory outside the project (absolute), and a dangling one
    os.symlink(os.path.join(T, "shared", "NOTES.txt"), os.path.join(T, "proj", "media", "notes_link.txt"))
    os.symlink(os.path.join(T, "shared", "code"), os.path.join(T, "proj", "media", "code_link"))
    os.symlink(os.path.join(T, "shared", "results.csv"), os.path.join(T, "proj", "pages", "data", "dangling.csv"))
    meta = dict(site.DEFAULT_META)
    meta.update({"output_dir": out.replace("{T}", T), "src_dir": [s[0] for s in srcs], "media_dir": "./media", "css": "./style.css",
                 "favicon": "./fav.png", "mathjax_config": "./mj.js", "page_dir": "./pages", "incl_src": True, "externalize": True,
                 "graph": True, "search": True, "parallel": 0, "quiet": True})
    if graph:
        meta["graph_dir"] = graph[0].replace("{T}", T)
    with open(os.path.join(T, "proj", "proj.md"), "w") as f:
        f.write(site.project_file_text(meta, "Project text\n"))
    roots = [os.path.realpath(os.path.join(T, "proj", out.replace("{T}", T)))]
    if graph:
        roots.append(os.path.realpath(os.path.join(T, "proj", graph[0].replace("{T}", T))))
    return roots


def snapshot(T):
    snap = {}
    for dp, dn, fn in os.walk(T, followlinks=False):
        for n in dn + fn:
            p = os.path.join(dp, n)
            rel = os.path.relpath(p, T)
            st = os.lstat(p)
            if stat.S_ISLNK(st.st_mode):
                snap[rel] = ("link", os.readlink(p))
            elif stat.S_ISDIR(st.st_mode):
                snap[rel] = ("dir", stat.S_IMODE(st.st_mode))
            else:
                with open(p, "rb") as f:
                    snap[rel] = ("file", hashlib.sha1(f.read()).hexdigest(), stat.S_IMODE(st.st_mode), st.st_mtime_ns)
    return snap


def under(path, roots):
    return any(path == r or path.startswith(r + os.sep) for r in roots)


def run_case(args):
    """args = (placement index, fail_at).  Returns dict with outside-changes, events, rc."""
    pi, fail_at = args
    plc = PLACEMENTS[pi]
    with fordrun.tempdir("verif-c19-") as base:
        T = os.path.join(base, "T")
        os.mkdir(T)
        roots = build_sandbox(T, plc)
        log = os.path.join(base, "fs.log")
        before = snapshot(T)
        env = dict(os.environ)
        env.update({"PYTHONPATH": SHIM + os.pathsep + common.REPO, "FORD_VERIF_TRACE": "1", "VERIF_FS_LOG": log,
                    "VERIF_FS_FAIL_AT": str(fail_at), "PYTHONHASHSEED": "0", "PYTHONDONTWRITEBYTECODE": "1", "FORD_DEBUGGING": "1"})
        try:
            p = subprocess.run([sys.executable, "-m", "ford", "proj.md"], cwd=os.path.join(T, "proj"), env=env, capture_output=True, text=True, timeout=300)
            rc, outtxt = p.returncode, (p.stdout + p.stderr)[-1500:]
        except subprocess.TimeoutExpired:
            rc, outtxt = -9, "timeout"
        after = snapshot(T)
        changed = sorted(k for k in set(before) | set(after) if before.get(k) != after.get(k))
        outside = [k for k in changed if not under(os.path.realpath(os.path.join(T, os.path.dirname(k))) + os.sep + os.path.basename(k), roots)
                   and not under(os.path.join(T, k), roots)]
        # the inputs survive wherever they stand, also inside the graph directory (only the OUTPUT directory may not hold them)
        inputs = [os.path.realpath(os.path.join(T, "proj", s_[0])) for s_ in plc[3]] + [os.path.join(T, "proj", x) for x in ("pages", "media", "proj.md")]
        for k in changed:
            full = os.path.realpath(os.path.join(T, os.path.dirname(k))) + os.sep + os.path.basename(k)
            if k not in outside and not under(full, roots[:1]) and under(full, inputs) and before.get(k) is not None and not must_refuse(plc):
                outside.append(k)
        events = []
        if os.path.exists(log):
            for line in open(log):
                try:
                    ev = json.loads(line)
                except ValueError:
                    continue
                path = ev["path"]
                where = "out" if under(path, roots[:1]) else ("graph" if under(path, roots[1:]) else "other")
                if where == "other" and (path.startswith("/dev/") or path.startswith("/proc/")):
                    continue
                events.append({"op": ev["op"], "root": where, "path": os.path.relpath(path, T) if path.startswith(T) else path, "failed": ev["failed"]})
        refused = rc != 0 and "is a subdirectory of output directory" in outtxt
        return {"rc": rc, "outside": outside, "events": events, "refused": refused, "tail": outtxt[-400:], "n_ops": len(events)}


def model_check(scratch, ck):
    dirs = frozenset(DIRS)
    parent = "=(" + " @@ ".join(f"{d} :> {p}" for d, (_, p) in DIRS.items()) + ")"
    recs = []
    for name, out, outd, srcs, graph in PLACEMENTS:
        s = "<<" + ", ".join(f"[res |-> {d}, lexbelow |-> {'TRUE' if lb else 'FALSE'}]" for _, d, lb in srcs) + ">>"
        recs.append(f"[out |-> {outd}, graph |-> {graph[1] if graph else 0}, srcs |-> {s}]")
    placements = "={" + ", ".join(recs) + "}"
    base = {"Dirs": dirs, "Parent": parent, "Placements": placements, "NSteps": 4}
    mod, cfg = tlc.make_model(scratch, "FsRun", dict(base, Dev=frozenset()), name="MCd", spec="Spec",
                              invariants=["TouchedUnderRoots", "SourcesSurvive", "RefusedBeforeAnyDelete", "RefusesWhenItMust"])
    r = tlc.run(mod, cfg, workers=8, timeout=900)
    if not r.ok:
        raise tlc.TLCFailure(f"FsRun: {r.violated} violated in the design model")
    for dev, inv in (("NoResolve", "RefusesWhenItMust"), ("LastSrcOnly", "SourcesSurvive")):
        mod, cfg = tlc.make_model(scratch, "FsRun", dict(base, Dev=frozenset({dev})), name=f"MCv{dev}", spec="Spec", invariants=[inv])
        if tlc.run(mod, cfg, workers=4, timeout=600).ok:
            raise tlc.TLCFailure(f"FsRun: deviation {dev} not caught by {inv} (model vacuous)")
    mod, cfg = tlc.make_model(scratch, "FsRun", dict(base, Dev=frozenset()), name="MCvac", spec="Spec", invariants=["NeverRefuses"])
    if tlc.run(mod, cfg, workers=4, timeout=600).ok:
        raise tlc.TLCFailure("vacuity guard NeverRefuses not violated")
    ck.coverage["states"] = r.distinct
    ck.coverage["transitions"] = r.generated


def validate_traces(runs):
    d = tlc.scratch_dir("verif-c19t-")
    try:
        tf = os.path.join(d, "runs.json")
        json.dump({"runs": runs}, open(tf, "w"))
        mod, cfg = tlc.make_model(d, "FsRun_Trace", {}, spec="Spec", postcondition="AllConsumed")
        res = tlc.run(mod, cfg, workers=1, env={"TRACE_FILE": tf}, timeout=1800)
        vs = []
        for line in res.output.splitlines():
            m = re.search(r'<<"VERDICT", "(.*)">>$', line.strip())
            if m:
                vs.append(json.loads(m.group(1).encode().decode("unicode_escape")))
        if len(vs) != len(runs):
            raise tlc.TLCFailure(f"FsRun_Trace: {len(runs)} runs, {len(vs)} verdicts\n{res.output[-800:]}")
        return vs
    finally:
        shutil.rmtree(d, ignore_errors=True)


def must_refuse(plc):
    return plc[0] in ("equal-src", "above-src", "symlink-above-src", "src-symlink-into-output", "first-src-inside", "last-src-inside")


def run(tier, seed, ck: Check):
    big = tier == "thorough"
    scratch = tlc.scratch_dir("verif-c19m-")
    try:
        model_check(scratch, ck)
    finally:
        shutil.rmtree(scratch, ignore_errors=True)
    clean = pool.pmap(run_case, [(i, 0) for i in range(len(PLACEMENTS))], chunksize=1)
    jobs = []
    for i, r in enumerate(clean):
        n = r["n_ops"]
        if n and not must_refuse(PLACEMENTS[i]):
            ks = range(1, n + 1) if big else sorted(set(list(range(1, min(n, 12) + 1)) + list(range(1 + (seed % 7), n + 1, max(1, n // 10)))))
            jobs += [(i, k) for k in ks]
    faulted = pool.pmap(run_case, jobs, chunksize=1)
    runs = []
    allres = [((i, 0), r) for i, r in enumerate(clean)] + list(zip(jobs, faulted))
    for idx, ((pi, k), r) in enumerate(allres):
        plc = PLACEMENTS[pi]
        ck.count()
        ck.nontrivial_case(f"{plc[0]}@{k}")
        case = {"placement": plc[0], "output_dir": plc[1], "src_dir": [s[0] for s in plc[3]], "graph_dir": plc[4][0] if plc[4] else None, "fail_at": k}
        if r["outside"]:
            ck.violation("outside-output", case, observed=r["outside"][:10],
                         detail=f"placement {plc[0]}, failure injected at op {k}: changed outside the output/graph directory: {r['outside'][:5]}")
        if must_refuse(plc) and not r["refused"]:
            ck.violation("not-refused", case, observed=r["tail"],
                         detail=f"placement {plc[0]}: a source directory lies inside the output directory but the run was not refused (rc={r['rc']})")
        if k == 0 and not must_refuse(plc) and r["rc"] != 0:
            ck.violation("clean-run-failed", case, observed=r["tail"], detail=f"placement {plc[0]}: clean run exited {r['rc']}")
        runs.append({"id": idx, "refused": bool(r["refused"]), "events": [{"op": e["op"], "root": e["root"]} for e in r["events"]]})
    vs = validate_traces(runs)
    ck.coverage["traces_validated_against_impl"] = len(vs)
    ck.coverage["fs_events_checked"] = sum(v["n"] for v in vs)
    for v in vs:
        if v["bad"]:
            (pi, k), r = allres[v["id"]]
            ev = r["events"][v["bad"] - 1]
            ck.violation("fs-trace", {"placement": PLACEMENTS[pi][0], "fail_at": k}, observed=ev,
                         detail=f"placement {PLACEMENTS[pi][0]} (fail_at={k}): call {v['bad']} {ev['op']} {ev['path']}: {v['why']}")
    # the trace spec is bound to what was recorded: one corrupted field -> that run rejected
    good = [r_ for r_, v in zip(runs, vs) if not v["bad"] and r_["events"] and not r_["refused"]][:10]
    corrupted = []
    for j, r_ in enumerate(good):
        r2 = json.loads(json.dumps(r_)); r2["id"] = j
        if j % 2 == 0:
            r2["events"][len(r2["events"]) // 2]["root"] = "other"      # one call outside the roots
        else:
            r2["refused"] = True                                          # a refused run that touched the tree
        corrupted.append(r2)
    if corrupted:
        cv = validate_traces(corrupted)
        if [v["id"] for v in cv if not v["bad"]]:
            raise tlc.TLCFailure(f"FsRun_Trace accepted corrupted runs {[v['id'] for v in cv if not v['bad']]}: the trace spec does not bind")
        ck.coverage["corrupted_traces_rejected"] = len(cv)
    ck.coverage["placements"] = [p[0] for p in PLACEMENTS]
    ck.coverage["ops_per_clean_run"] = {PLACEMENTS[i][0]: r["n_ops"] for i, r in enumerate(clean)}
    ck.sample({"placement": PLACEMENTS[0][0], "events_head": clean[0]["events"][:6]})
    ck.assumptions += [
        "the child runs with PYTHONDONTWRITEBYTECODE=1; /dev and /proc are not files; reads are unrestricted",
        "mutating calls are intercepted at the Python level (os.*, open, os.open); writes by child processes (dot) are covered by the before/after snapshot of the whole sandbox only",
        "inputs are outside the output directory except in the placements that must be refused",
    ]


def replay_file(path, ck):
    rec = json.load(open(path))
    c = rec["case"]
    pi = next(i for i, p in enumerate(PLACEMENTS) if p[0] == c["placement"])
    r = run_case((pi, c.get("fail_at", 0)))
    ck.count(); ck.nontrivial_case("r1"); ck.nontrivial_case("r2")
    ck.sample({"case": c, "outside": r["outside"][:5], "rc": r["rc"], "refused": r["refused"]})
    if r["outside"]:
        ck.violation("outside-output", c, observed=r["outside"][:10], detail=f"changed outside the output/graph directory: {r['outside'][:5]}")
    if must_refuse(PLACEMENTS[pi]) and not r["refused"]:
        ck.violation("not-refused", c, observed=r["tail"], detail="run was not refused")


def main():
    a = common.args()
    ck = Check(PROP, "fault_enumeration", a.tier, a.seed)
    try:
        if a.replay:
            replay_file(a.replay, ck)
        else:
            run(a.tier, a.seed, ck)
    except tlc.TLCFailure as e:
        return machinery_failure(PROP, str(e))
    return ck.finish(rule="runs = 14 placements of output_dir/graph_dir (sibling, nested, absolute, through a symlink, through '..', graph_dir inside/"
                          "separate/absolute, equal to / above a source directory directly or through symlinks, first/last of two source directories "
                          "inside) with every copying option on x (clean run + a failure injected at the k-th mutating file-system call); each run "
                          "is a distinct non-trivial case", exhaustive=(a.tier == "thorough"))


if __name__ == "__main__":
    sys.exit(main())
