#!/venv/bin/python
"""C16 - links into an externalised project hit the right pages of that project.

Spec: spec/External.tla (histories BuildA / RebuildA / Damage / BuildB; RoundTrip, PrivateNeverExported,
LocalPrecedence, FaultCostsOnlyLinks).  Replay: generated project pairs are built with the real FORD
in every history TLC enumerates; A's modules.json is compared with A's public entities, every link
leaving B's tree must exist in A's tree (file and anchor), names B defines itself stay local, and a
missing / truncated / non-JSON / wrong-shape description must cost only the links.
"""
from __future__ import annotations
import json
import os
import posixpath
import re
import shutil
import sys
import urllib.parse

sys.path.insert(0, os.path.dirname(os.path.abspath(__file__)))
import common  # noqa: E402
from vlib import tlc, tlaval, pool, fordrun, site  # noqa: E402
from vlib.verdict import Check, machinery_failure  # noqa: E402

PROP = "C16"

A_SRC = {
    "src/amod.f90": ("module amod\n  !! module of A\n  implicit none\n  private\n  public :: base_t, asub, agen, avar, afun, other_t\n"
                     "  integer :: avar = 1 !! public variable\n  integer :: hidden_var !! private variable\n"
                     # a second type whose component and binding carry the same names as base_t's (members are per type)
                     "  type :: other_t\n    !! another public type\n    integer :: comp\n  contains\n    procedure :: tb => asub3\n  end type other_t\n"
                     "  type :: base_t\n    !! public type\n    integer :: comp\n  contains\n    procedure :: tb => asub2\n  end type base_t\n"
                     "  type :: hidden_t\n    integer :: z\n  end type hidden_t\n"
                     "  interface agen\n    !! public generic\n    module procedure asub\n  end interface agen\n"
                     "contains\n  subroutine asub(x)\n    !! public subroutine\n    integer :: x\n  end subroutine asub\n"
                     "  subroutine asub2(self)\n    class(base_t) :: self\n  end subroutine asub2\n"
                     "  subroutine asub3(self)\n    class(other_t) :: self\n  end subroutine asub3\n"
                     "  function afun(x) result(r)\n    !! public function\n    integer :: x, r\n    r = x\n  end function afun\n"
                     "  subroutine hidden_sub()\n  end subroutine hidden_sub\nend module amod\n"),
    # a facade module that re-exports amod's entities under new names
    "src/aapi.f90": ("module aapi\n  !! facade of A\n  use amod, only: api_run => asub, api_t => base_t, api_fun => afun\n  implicit none\n  private\n"
                     "  public :: api_run, api_t, api_fun\nend module aapi\n"),
    "src/utils.f90": "module utils\n  !! A's utils\n  implicit none\n  type :: vec_t\n    real :: x\n  end type vec_t\ncontains\n  subroutine helper()\n  end subroutine helper\nend module utils\n",
}
A_PUBLIC = {("amod", "base_t"), ("amod", "asub"), ("amod", "agen"), ("amod", "avar"), ("amod", "afun"), ("amod", "other_t"),
            ("utils", "vec_t"), ("utils", "helper")}
A_PRIVATE = {("amod", "hidden_var"), ("amod", "hidden_t"), ("amod", "hidden_sub"), ("amod", "asub2"), ("amod", "asub3")}

B_SRC = {
    "src/bmod.f90": ("module bmod\n  !! B uses A: see [[asub]] and [[base_t]] and [[amod]]\n  use amod\n  use utils\n  implicit none\n"
                     "  type, extends(base_t) :: child_t\n    !! extends A's type\n    type(vec_t) :: v\n    type(base_t) :: part\n  end type child_t\n"
                     "contains\n  subroutine bsub(c)\n    !! calls A\n    type(child_t) :: c\n    integer :: k\n    call asub(k)\n    k = afun(k)\n    call agen(k)\n    call helper()\n  end subroutine bsub\nend module bmod\n"),
    # B's own utils: must win over A's module of the same name
    "src/utils.f90": "module utils\n  !! B's utils\n  implicit none\n  type :: vec_t\n    real :: y\n  end type vec_t\ncontains\n  subroutine helper()\n    !! B's helper\n  end subroutine helper\nend module utils\n",
    "src/viaapi.f90": ("module viaapi\n  !! B reaches A through the facade's names\n  use aapi\n  implicit none\n  type(api_t) :: held\n  type, extends(api_t) :: viachild\n    !! extends A's type under the facade's name\n    integer :: more\n  end type viachild\ncontains\n"
                       "  subroutine facade_user(k)\n    integer :: k\n    call api_run(k)\n    k = api_fun(k)\n  end subroutine facade_user\nend module viaapi\n"),
    "src/prog.f90": "program bprog\n  use bmod\n  use amod, only: avar\n  type(child_t) :: c\n  call bsub(c)\nend program bprog\n",
}


REQUIRED_FRAGMENTS = [("type/viachild.html", "type/base_t.html", "boundprocedure-tb"), ("type/child_t.html", "type/base_t.html", "boundprocedure-tb")]
REQUIRED_LINKS = [("module/viaapi.html", "type/base_t.html"), ("module/viaapi.html", "module/aapi.html"), ("type/child_t.html", "type/base_t.html"),
                  ("module/bmod.html", "module/amod.html"), ("module/bmod.html", "proc/asub.html")]


def build_A(root, opts):
    fordrun.write_files(os.path.join(root, "A"), A_SRC)
    meta = {"externalize": True, "project": "projA"}
    meta.update(opts)
    return site.run_inproc(os.path.join(root, "A"), meta, body="Project A")


def damage(root, fault):
    p = os.path.join(root, "A", "doc", "modules.json")
    if fault == "missing":
        os.remove(p)
    elif fault == "truncated":
        data = open(p).read()
        open(p, "w").write(data[: len(data) // 2])
    elif fault == "notjson":
        open(p, "w").write("<html>404 not found</html>")
    elif fault == "wrongshape":
        open(p, "w").write(json.dumps({"something": "else", "modules": [{"unexpected": 1}]}))
    elif fault == "isdir":
        os.remove(p)
        os.makedirs(os.path.join(p, "sub"))
    # "pathisfile": nothing is damaged; B's option names <A>/doc/index.html (see evaluate)


def evaluate(case):
    bad = []
    with fordrun.tempdir("verif-c16-") as root:
        ok, log, err = build_A(root, case["optsA"][0])
        if not ok:
            return [("abort", f"building A failed: {type(err).__name__}: {err}")]
        if len(case["optsA"]) > 1:
            ok, log, err = build_A(root, case["optsA"][1])
            if not ok:
                return [("abort", f"rebuilding A failed: {type(err).__name__}: {err}")]
        adoc = os.path.join(root, "A", "doc")
        mj = os.path.join(adoc, "modules.json")
        # ---- the exported description lists exactly A's modules with their public entities
        try:
            data = json.load(open(mj))
            mods = data["modules"] if isinstance(data, dict) else data
            listed = set()
            for m in mods:
                for coll in ("functions", "subroutines", "interfaces", "absinterfaces", "types", "variables"):
                    for e in m.get(coll, []) or []:
                        if isinstance(e, dict):
                            listed.add((m["name"], e["name"]))
                            url = e.get("external_url", "")
                            path = urllib.parse.unquote(url.split("#")[0]).lstrip("./")
                            if path and not os.path.exists(os.path.join(adoc, path)):
                                bad.append(("export-url", f"modules.json gives {m['name']}::{e['name']} the URL {url}, which A's documentation does not contain"))
            if {m["name"] for m in mods} != {"amod", "utils", "aapi"}:
                bad.append(("export-modules", f"modules.json lists modules {sorted(m['name'] for m in mods)}"))
            leaked = listed & A_PRIVATE
            if leaked:
                bad.append(("export-private", f"modules.json exports private entities {sorted(leaked)}"))
            missing = A_PUBLIC - listed
            if missing:
                bad.append(("export-missing", f"modules.json lacks public entities {sorted(missing)}"))
        except Exception as ex:
            bad.append(("export-unreadable", f"modules.json of A unreadable: {ex}"))
        if case["fault"] != "none":
            damage(root, case["fault"])
        # ---- build B against A
        fordrun.write_files(os.path.join(root, "B"), B_SRC)
        server = None
        if case.get("remote"):
            server, port = serve(os.path.join(root, "A", "doc"), "/docs/projA")
            if server is None:
                return [("skipped", "loopback HTTP not available")]
            ext = f"http://127.0.0.1:{port}/docs/projA"          # a path component and no trailing slash
        else:
            ext = os.path.join(root, "A", "doc") if case["abspath"] else "../A/doc"
            if case["fault"] == "pathisfile":
                ext += "/index.html"
        # half of the histories start FORD from another directory (`ford B/proj.md`): a relative external path is relative to the project file
        elsewhere = os.path.join(root, "elsewhere", "deeper")
        os.makedirs(elsewhere, exist_ok=True)
        other_cwd = elsewhere if (len(case["optsA"]) + len(case["fault"])) % 2 == 0 else None
        okb, logb, errb = site.run_inproc(os.path.join(root, "B"), {"project": "projB", "external": f"projA = {ext}", "proc_internals": True},
                                          body="Project B, see [[asub]] and [[child_t]].", cwd_other=other_cwd)
        if server is not None:
            server.shutdown()
        if not okb:
            bad.append(("run-lost", f"fault {case['fault']!r}: building B failed instead of only losing links: {type(errb).__name__}: {errb}"))
            return bad
        bdoc = os.path.join(root, "B", "doc")
        # ---- every link leaving B's tree lands on an existing page (and anchor) of A
        ext_links = 0
        local_utils = True
        idcache = {}
        for rel in site.html_files(bdoc):
            pg = site.parse_page(bdoc, rel)
            for tag, attr, url in pg.links:
                if case.get("remote") and url.startswith(f"http://127.0.0.1:{port}/"):
                    ext_links += 1
                    u = urllib.parse.urlsplit(url)
                    if not u.path.startswith("/docs/projA/"):
                        bad.append(("dead-external", f"{rel}: {url} is outside the published location /docs/projA/ of A"))
                        continue
                    tgt = os.path.join(adoc, urllib.parse.unquote(u.path[len("/docs/projA/"):]))
                    if not os.path.exists(tgt):
                        bad.append(("dead-external", f"{rel}: {url} is not served by A's documentation"))
                    continue
                if url.startswith(site.EXTERNAL_SCHEMES) or url.startswith("#") or not url.strip():
                    continue
                u = urllib.parse.urlsplit(url)
                path = urllib.parse.unquote(u.path)
                tgt = os.path.normpath(os.path.join(bdoc, os.path.dirname(rel), path)) if not os.path.isabs(path) else os.path.normpath(path)
                if tgt.startswith(os.path.normpath(bdoc) + os.sep) or tgt == os.path.normpath(bdoc):
                    continue
                ext_links += 1
                if not tgt.startswith(os.path.normpath(adoc) + os.sep):
                    bad.append(("stray-link", f"{rel}: {url} leaves B's documentation but does not lead into A's"))
                    continue
                if not os.path.exists(tgt):
                    bad.append(("dead-external", f"{rel}: {url} points at {os.path.relpath(tgt, adoc)}, which A's documentation does not contain"))
                    continue
                if u.fragment and tgt.endswith(".html"):
                    if tgt not in idcache:
                        idcache[tgt] = set(site.parse_page(os.path.dirname(tgt), os.path.basename(tgt)).ids)
                    if urllib.parse.unquote(u.fragment) not in idcache[tgt]:
                        bad.append(("dead-external-anchor", f"{rel}: {url}: A's page has no element #{u.fragment}"))
                if re.search(r"/(module/utils|type/vec_t|proc/helper)\.html", tgt):
                    local_utils = False
                    bad.append(("external-over-local", f"{rel}: {url} leads to A although B defines the entity itself"))
        if case["fault"] == "none":
            # references B makes to A's entities - also under the names A's facade module gives them - are links into A
            for rel, tail in REQUIRED_LINKS:
                pg = site.parse_page(bdoc, rel) if os.path.exists(os.path.join(bdoc, rel)) else None
                if pg is None:
                    bad.append(("missing-page", f"B's page {rel} was not written"))
                elif not any(urllib.parse.urlsplit(u).path.endswith(tail) for _, _, u in pg.links):
                    bad.append(("missing-external-link", f"{rel} refers to an entity of A but has no link to A's {tail}"))
        if case["fault"] == "none":
            for rel, tail, frag in REQUIRED_FRAGMENTS:       # members of A's types, also of a type reached through the facade
                pg = site.parse_page(bdoc, rel) if os.path.exists(os.path.join(bdoc, rel)) else None
                if pg is not None and not any(urllib.parse.urlsplit(u).path.endswith(tail) and urllib.parse.urlsplit(u).fragment in (frag, frag + "~2") for _, _, u in pg.links):
                    bad.append(("missing-external-link", f"{rel} inherits {frag.split('-')[-1]} from A's type but has no link to A's {tail}#{frag}"))
        if case["fault"] == "none" and ext_links == 0:
            bad.append(("no-external-links", "B refers to A's entities but no link into A's documentation was generated"))
    return bad


def serve(directory, prefix):
    """Serve `directory` under http://127.0.0.1:<port><prefix>/ from a thread (loopback only)."""
    import functools
    import http.server
    import threading

    class H(http.server.SimpleHTTPRequestHandler):
        def translate_path(self, path):
            path = urllib.parse.urlsplit(path).path
            if not path.startswith(prefix + "/"):
                return os.path.join(directory, "__no_such__")
            return os.path.join(directory, urllib.parse.unquote(path[len(prefix) + 1:]))

        def log_message(self, *a):
            pass

    try:
        srv = http.server.ThreadingHTTPServer(("127.0.0.1", 0), H)
    except OSError:
        return None, None
    threading.Thread(target=srv.serve_forever, daemon=True).start()
    return srv, srv.server_address[1]


def _parse_block(block):
    if '/\\ phase = "done"' not in block:
        return None
    st = tlaval.parse_state(block)
    return {"builds": st["builds"], "fault": st["damaged"]}


OPTS_A = [{}, {"display": ["public", "private", "protected"], "incl_src": False}, {"display": ["public"], "proc_internals": True, "graph": True}]


def run(tier, seed, ck: Check):
    big = tier == "thorough"
    scratch = tlc.scratch_dir("verif-c16m-")
    try:
        aents = "={" + ", ".join(f'[mod |-> "{m}", name |-> "{n}", public |-> TRUE]' for m, n in sorted(A_PUBLIC)) + ", " + \
                ", ".join(f'[mod |-> "{m}", name |-> "{n}", public |-> FALSE]' for m, n in sorted(A_PRIVATE)) + "}"
        consts = {"AEnts": aents, "BDefines": frozenset({"vec_t", "helper", "child_t", "bsub"}), "BRefs": frozenset({"base_t", "asub", "agen", "afun", "avar", "vec_t", "helper", "hidden_sub"})}
        mod, cfg = tlc.make_model(scratch, "External", consts, name="MC", spec="Spec",
                                  invariants=["RoundTrip", "PrivateNeverExported", "LocalPrecedence", "FaultCostsOnlyLinks"])
        dump = os.path.join(scratch, "gen")
        r = tlc.run(mod, cfg, workers=4, dump=dump, timeout=600)
        if not r.ok:
            raise tlc.TLCFailure(f"External: {r.violated} violated")
        hist = [c for c in map(_parse_block, tlc.read_dump_blocks(r.dump_file)) if c]
        mod, cfg = tlc.make_model(scratch, "External", consts, name="MCvac", spec="Spec", invariants=["NeverDamaged"])
        if tlc.run(mod, cfg, workers=2, timeout=300).ok:
            raise tlc.TLCFailure("vacuity guard NeverDamaged not violated")
        ck.coverage["states"] = r.distinct
        ck.coverage["transitions"] = r.generated
    finally:
        shutil.rmtree(scratch, ignore_errors=True)
    cases = []
    seen = set()
    for h in hist:
        for first in range(len(OPTS_A)):
            seconds = [None] if h["builds"] == 1 else list(range(len(OPTS_A)))
            for second in seconds:
                for absp in (False, True):
                    key = (h["fault"], first, second, absp)
                    if key in seen:
                        continue
                    seen.add(key)
                    cases.append({"fault": h["fault"], "optsA": [OPTS_A[first]] + ([OPTS_A[second]] if second is not None else []), "abspath": absp})
    for first in range(len(OPTS_A)):
        cases.append({"fault": "none", "optsA": [OPTS_A[first]], "abspath": False, "remote": True})
    cases.append({"fault": "missing", "optsA": [OPTS_A[0]], "abspath": False, "remote": True})
    if not big:
        import zlib
        cases = [c for c in cases if zlib.crc32(json.dumps(c, sort_keys=True).encode()) % 4 == seed % 4
                 or (len(c["optsA"]) == 1 and c["optsA"][0] == {} and (c["fault"] == "none" or not c["abspath"])) or c.get("remote")]
    for c, bad in zip(cases, pool.pmap(evaluate, cases, chunksize=1)):
        ck.count()
        ck.nontrivial_case(json.dumps(c, sort_keys=True))
        seen_b = set()
        for tag, b in bad:
            if tag == "skipped":
                ck.coverage["remote_skipped"] = ck.coverage.get("remote_skipped", 0) + 1
                continue
            if (tag, b[:60]) in seen_b:
                continue
            seen_b.add((tag, b[:60]))
            if tag == "export-private" and "private" in (c["optsA"][-1].get("display") or []) and ck.known_finding("C16-F2"):
                continue
            ck.violation(tag, c, detail=b)
    ck.coverage["traces_validated_against_impl"] = 0
    ck.sample({"history": cases[0], "A_public": sorted(A_PUBLIC), "B_defines_too": ["utils", "vec_t", "helper"]})
    ck.assumptions += [
        "A is addressed by a relative path, by an absolute local path and - when a loopback socket can be opened - as http://127.0.0.1:<port>/docs/projA served from a thread (skipped and counted otherwise)",
        "one generated pair of projects: B uses A's modules, extends and contains A's types, calls A's subroutine / function / generic, names A's entities in [[...]], and defines a module `utils` that A also has",
    ]


def replay_file(path, ck):
    rec = json.load(open(path))
    bad = evaluate(rec["case"])
    ck.count(); ck.nontrivial_case("r1"); ck.nontrivial_case("r2")
    ck.sample({"case": rec["case"], "problems": bad[:5]})
    for tag, b in bad:
        ck.violation(tag, rec["case"], detail=b)


def main():
    a = common.args()
    ck = Check(PROP, "exploration", a.tier, a.seed)
    try:
        if a.replay:
            replay_file(a.replay, ck)
        else:
            run(a.tier, a.seed, ck)
    except tlc.TLCFailure as e:
        return machinery_failure(PROP, str(e))
    return ck.finish(rule="histories = BuildA(options) [RebuildA(options')] [Damage(missing | truncated | not JSON | wrong shape)] BuildB from spec/External.tla x 3 "
                          "option sets for A x relative / absolute path to A; every history is a distinct non-trivial case", exhaustive=(a.tier == "thorough"))


if __name__ == "__main__":
    sys.exit(main())
