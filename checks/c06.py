#!/venv/bin/python
"""C06 - USE association imports exactly the accessible names.

Spec: spec/Scopes.tla.  Every Complete project TLC reaches (modules M1..Mk + probe program) is
rendered as one file per module, parsed and correlated by the real FORD in several file orders, and
what each probe reference resolves to is compared with Ref (F2018 14.2.2).
"""
from __future__ import annotations
import itertools
import random
import zlib
import json
import os
import re
import shutil
import sys

sys.path.insert(0, os.path.dirname(os.path.abspath(__file__)))
import common  # noqa: E402
from vlib import tlc, tlaval, pool, fordrun  # noqa: E402
from vlib.verdict import Check, machinery_failure  # noqa: E402

PROP = "C06"
AS_BUILT_DEV = ("RenameWithoutOnly", "PrivateImportIgnored", "EmptyOnly", "OneLocalPerRemote")
FINDING = {"RenameWithoutOnly": "C06-F1", "PrivateImportIgnored": "C06-F2", "EmptyOnly": "C06-F3", "OneLocalPerRemote": "C06-F4",
           "CrossClassHostHiding": "C06-F5"}
NAMES = ("a", "b", "c")
KINDMAPS = {
    "K1": {"a": "type", "b": "sub"},
    "K2": {"a": "absint", "b": "var"},
    "K3": {"a": "generic", "b": "func"},
}


def as_built_dev():
    from vlib.verdict import load_known
    open_ids = set(load_known(PROP))
    return tuple(d for d in AS_BUILT_DEV if FINDING[d] in open_ids)


# ---------------------------------------------------------------- rendering
def use_line(u, style):
    s = "use"
    if style == 1:
        s = "USE, NON_INTRINSIC ::"
    s += f" m{u['m']}"
    parts = [f"{it['l']} => {it['r']}" if it["l"] != it["r"] else it["r"] for it in u["items"]]
    if u["only"]:
        s += ", only: " + ", ".join(parts) if style == 0 else ", ONLY : " + " , ".join(parts)
    elif parts:
        s += ", " + ", ".join(parts)
    return s.rstrip()


def decl_lines(name, kind, prot=False):
    """(specification lines, contains lines); prot: a public variable also carries PROTECTED (it stays accessible by USE)"""
    if kind == "type":
        return [f"type :: {name}", "  integer :: v", f"end type {name}"], []
    if kind == "sub":
        return [], [f"subroutine {name}()", f"end subroutine {name}"]
    if kind == "func":
        return [], [f"function {name}(x) result(r)", "  integer :: x, r", "  r = x", f"end function {name}"]
    if kind == "absint":
        return ["abstract interface", f"  subroutine {name}()", f"  end subroutine {name}", "end interface"], []
    if kind == "var":
        return [f"integer, protected :: {name}" if prot else f"integer :: {name}"], []
    if kind == "generic":
        return [f"interface {name}", f"  module procedure {name}_impl", f"end interface {name}"], \
               [f"subroutine {name}_impl(x)", "  integer :: x", f"end subroutine {name}_impl"]
    raise ValueError(kind)


PROBE_SLOTS = ("type", "call", "fcall", "procptr", "namelist")


STUB = "omp_lib"      # a project module may be called like one of the modules FORD knows as external (mpi, omp_lib, iso_c_binding, ...)


def render(mods, kindmap, style, placement="program"):
    files = {}
    nm = len(mods) - 1
    stub = placement.endswith("-stubname")
    placement = placement.replace("-stubname", "")
    if stub:
        files = render(mods, kindmap, style, placement)
        return {k: re.sub(r"\bm1\b", STUB, v) for k, v in files.items()}
    for i, M in enumerate(mods[:-1], start=1):
        L = [f"module m{i}"]
        L += ["  " + use_line(u, style) for u in M["uses"]]
        L.append("  implicit none")
        if M["dflt"] == "private":
            L.append("  private")
        elif style == 1:
            L.append("  public")
        for n, p in list(M["decls"].items()) + list(M["acc"].items()):
            if p != "none":
                L.append(f"  {p} :: {n}")
        spec, cont = [], []
        for n in M["decls"]:
            eff = M["decls"][n] if M["decls"][n] != "none" else M["dflt"]
            s_, c_ = decl_lines(n, kindmap[n], prot=(style == 1 and eff == "public"))
            spec += s_
            cont += c_
        L += ["  " + x for x in spec]
        if cont:
            L.append("contains")
            L += ["  " + x for x in cont]
        L.append(f"end module m{i}")
        files[f"m{i}.f90"] = "\n".join(L) + "\n"
    P = mods[-1]
    uses = ["  " + use_line(u, style) for u in P["uses"]]
    body1 = ["  integer :: x"]
    for n in NAMES:
        body1.append(f"  type({n}) :: pt_{n}")
        body1.append(f"  procedure({n}), pointer :: pp_{n}")
        body1.append(f"  namelist /nl_{n}/ {n}")
    for n in NAMES:
        body1.append(f"  call {n}()")
    # function-call probes live in their own unit so that the CALL probes do not mask them
    body2 = ["  integer :: x"] + [f"  x = {n}(1)" for n in NAMES]
    if placement == "program":
        files["probe.f90"] = "\n".join(["program probe"] + uses + ["  implicit none"] + body1 + ["end program probe"]) + "\n"
        files["probe2.f90"] = "\n".join(["program probe2"] + uses + ["  implicit none"] + body2 + ["end program probe2"]) + "\n"
    else:
        # USE statements inside procedures of a module that has no USE of its own
        ind = lambda ls: ["  " + x for x in ls]
        host_use = ["  use m1"] if placement == "hosted" else []      # the host sees m1's exports; the procedures' own USEs hide them
        files["aprobe.f90"] = "\n".join(
            ["module aprobe"] + host_use + ["  implicit none", "contains", "  subroutine probe()"] + ind(uses) + ind(body1) + ["  end subroutine probe",
             "  subroutine probe2()"] + ind(uses) + ind(body2) + ["  end subroutine probe2", "end module aprobe"]) + "\n"
    return files


def ident(obj):
    if isinstance(obj, str):
        return "unresolved"
    par = getattr(obj, "parent", None)
    pn = getattr(par, "name", "?").lower()
    return f"{'m1' if pn == STUB else pn}::{obj.name.lower()}"


def observe(files, order):
    p = fordrun.project(files, order=order)
    progs = {pr.name.lower(): pr for pr in p.programs}
    for m in p.modules:
        if m.name.lower() == "aprobe":
            progs.update({sr.name.lower(): sr for sr in m.subroutines})
    if "probe" not in progs or "probe2" not in progs:
        return {"_error": "probe programs not reported"}
    pr, pr2 = progs["probe"], progs["probe2"]
    obs = {}
    vars_ = {v.name.lower(): v for v in pr.variables}
    nls = {n.name.lower(): n for n in pr.namelists}
    calls = {}
    for c in pr.calls:
        calls[(c if isinstance(c, str) else c.name).lower()] = c
    calls2 = {}
    for c in pr2.calls:
        calls2[(c if isinstance(c, str) else c.name).lower()] = c
    for n in NAMES:
        v = vars_.get(f"pt_{n}")
        obs[f"type:{n}"] = ident(v.proto[0]) if v is not None and v.proto else "missing"
        v = vars_.get(f"pp_{n}")
        obs[f"procptr:{n}"] = ident(v.proto[0]) if v is not None and v.proto else "missing"
        nl = nls.get(f"nl_{n}")
        obs[f"namelist:{n}"] = ident(nl.variables[0]) if nl is not None and nl.variables else "missing"
    # calls are recorded under the name of the resolved procedure, not under the local name
    obs["_calls"] = sorted(ident(c) if not isinstance(c, str) else "unresolved:" + c.lower() for c in pr.calls)
    obs["_fcalls"] = sorted(ident(c) if not isinstance(c, str) else "unresolved:" + c.lower() for c in pr2.calls)
    return obs


SLOT_OF_KIND = {"type": "type", "absint": "procptr", "var": "namelist", "sub": "call", "func": "fcall", "generic": "call"}


def expected_obs(resolve, kindmap):
    """What every probe slot must hold, from Ref's resolution of each name."""
    exp = {}
    calls, fcalls = [], []
    for n in NAMES:
        mi, en = resolve[n]
        tgt = None if mi == 0 else f"m{mi}::{en}"
        kind = None if mi == 0 else kindmap[en]
        for slot in ("type", "procptr", "namelist"):
            if tgt is None:
                exp[f"{slot}:{n}"] = {"unresolved"}
            elif SLOT_OF_KIND[kind] == slot:
                exp[f"{slot}:{n}"] = {tgt}
            elif slot == "procptr" and kind in ("sub", "func", "generic"):
                exp[f"{slot}:{n}"] = {tgt}          # procedure(n) may name any visible procedure
            else:
                exp[f"{slot}:{n}"] = None            # wrong-class reference: no expectation
        if tgt is None:
            calls.append({"unresolved:" + n})
            fcalls.append({"unresolved:" + n})
        else:
            calls.append({tgt} if kind in ("sub", "generic") else None)
            fcalls.append({tgt} if kind == "func" else None)
    return exp, calls, fcalls


def compare(resolve, kindmap, obs, allow_missing=frozenset()):
    """List of (slot, expected, observed) mismatches.  allow_missing: call targets that may be absent (as-built prediction of C06-F5)."""
    if "_error" in obs:
        return [("_error", "parse", obs["_error"])]
    exp, calls, fcalls = expected_obs(resolve, kindmap)
    bad = []
    for k, want in exp.items():
        if want is not None and obs.get(k) not in want:
            bad.append((k, sorted(want), obs.get(k)))
    for label, wants, got in (("call", calls, obs["_calls"]), ("fcall", fcalls, obs["_fcalls"])):
        must = set()
        for w in wants:
            if w is not None:
                must |= w
        free = any(w is None for w in wants)
        gotset = set(got)
        missing = must - gotset - set(allow_missing)
        extra = set() if free else gotset - must
        # with wrong-class references present, anything else FORD reports must at least not be a spurious resolution
        if free:
            extra = {g for g in gotset - must if not g.startswith("unresolved:") and g not in _all_targets(resolve)}
        if missing or extra:
            bad.append((label, sorted(must), sorted(gotset)))
    return bad


def _all_targets(resolve):
    return {f"m{mi}::{en}" for (mi, en) in resolve.values() if mi != 0}


def orders(files, tier):
    names = sorted(files)
    if tier == "thorough" and len(names) >= 3:
        perms = list(itertools.permutations(names))
        rng = random.Random(zlib.crc32("".join(files.values()).encode()))
        return [names, list(rng.choice(perms))]          # ascending and one seeded permutation
    return [names, names[::-1]]


def evaluate(case):
    out = []
    for km in case["kindmaps"]:
        kindmap = KINDMAPS[km]
        for style, placement in case["styles"]:
            files = render(case["mods"], kindmap, style, placement)
            for order in orders(files, case["tier"]):
                try:
                    obs = observe(files, order)
                except Exception as ex:
                    obs = {"_error": f"{type(ex).__name__}: {ex}"}
                if placement.startswith("hosted"):
                    comp = lambda inner, outer: {n: (inner[n] if inner[n][0] != 0 else outer[n]) for n in inner}
                    resolve, impl = comp(case["resolve"], case["exp1"]), comp(case["impl"], case["iexp1"])
                    by = {d: comp(r, case["byexp1"][d]) for d, r in case["by"].items()}
                else:
                    resolve, impl, by = case["resolve"], case["impl"], case["by"]
                bad = compare(resolve, kindmap, obs)
                # does the as-built model (with the open deviations) predict what we saw?
                explained = None
                if bad and "_error" not in obs:
                    dropped = set()
                    if placement.startswith("hosted"):
                        # as built the name tables are kept per class: a procedure imported by the inner USE does not hide a
                        # TYPE of the same name that the host sees, and a call through that name is taken for a constructor
                        for res in (resolve, impl):
                            for n in res:
                                if case["resolve"][n][0] != 0 or case["impl"][n][0] != 0:
                                    inner = case["impl"][n] if res is impl else case["resolve"][n]
                                    if inner[0] != 0 and kindmap[inner[1]] in ("sub", "func", "generic") and case["exp1"][n][0] != 0 \
                                            and kindmap[case["exp1"][n][1]] == "type":
                                        dropped.add(f"m{inner[0]}::{inner[1]}")
                    devs = [d for d, r in by.items() if r != resolve] or [d for d in by if trigger(d, case["mods"])]
                    if not compare(impl, kindmap, obs):
                        # which open deviation(s) explain it: a single one, else those whose trigger occurs
                        explained = [devs]
                    elif dropped and not compare(resolve, kindmap, obs, dropped):
                        explained = [["CrossClassHostHiding"]]
                    elif dropped and not compare(impl, kindmap, obs, dropped):
                        explained = [devs, ["CrossClassHostHiding"]]      # both findings at once: each must be open
                out.append({"km": km, "style": style, "placement": placement, "order": order, "bad": bad, "explained": explained, "resolve": resolve,
                            "files": files if bad else None, "obs": obs if bad else None})
    return out


def trigger(dev, mods):
    uses = [u for M in mods for u in M["uses"]]
    if dev == "RenameWithoutOnly":
        return any((not u["only"]) and u["items"] for u in uses)
    if dev == "EmptyOnly":
        return any(u["only"] and not u["items"] for u in uses)
    if dev == "OneLocalPerRemote":
        return any(len({i["r"] for i in u["items"]}) < len(u["items"]) for u in uses)
    if dev == "PrivateImportIgnored":
        return any(M["dflt"] == "public" and "private" in M["acc"].values() for M in mods)
    return False


_OUT = re.compile(r"/\\ out = \[")


def _norm(fn):
    return {n: (v[0], v[1]) for n, v in fn.items()}


def _parse_block(block):
    if not _OUT.search(block):
        return None
    st = tlaval.parse_state(block)
    out = st["out"]
    mods = []
    for M in st["mods"]:
        mods.append({"dflt": M["dflt"], "decls": dict(M["decls"]) if M["decls"] else {},
                     "uses": [{"m": u["m"], "only": u["only"], "items": [dict(i) for i in u["items"]]} for u in M["uses"]],
                     "acc": dict(M["acc"]) if M["acc"] else {}})
    return {"mods": mods, "resolve": _norm(out["resolve"]), "impl": _norm(out["impl"]),
            "by": {d: _norm(r) for d, r in (out["by"].items() if out["by"] else [])}, "cost": st["cost"],
            "exp1": _norm(out["exp1"]), "iexp1": _norm(out["iexp1"]),
            "byexp1": {d: _norm(r) for d, r in (out["byexp1"].items() if out["byexp1"] else [])}}


def generate(scratch, k, cost, dev, ck, design=True):
    base = {"Ents": frozenset({"a", "b"}), "Aliases": frozenset({"c"}), "NameOrder": NAMES, "MaxMods": k, "MaxCost": cost}
    if design:
        mod, cfg = tlc.make_model(scratch, "Scopes", dict(base, Dev=frozenset()), name=f"MCd{k}", spec="Spec",
                                  invariants=["ImplRefines", "ExportsRefine", "PrivateNeverImported"])
        r0 = tlc.run(mod, cfg, workers=16, timeout=3000)
        if not r0.ok:
            raise tlc.TLCFailure(f"Scopes[k={k}]: design-level invariant {r0.violated} violated")
        ck.coverage["states"] = ck.coverage.get("states", 0) + r0.distinct
        ck.coverage["transitions"] = ck.coverage.get("transitions", 0) + r0.generated
    mod, cfg = tlc.make_model(scratch, "Scopes", dict(base, Dev=frozenset(dev)), name=f"MCg{k}", spec="Spec")
    dump = os.path.join(scratch, f"gen{k}")
    r = tlc.run(mod, cfg, workers=16, dump=dump, timeout=3000)
    blocks = tlc.read_dump_blocks(r.dump_file)
    os.remove(r.dump_file)
    cases = [c for c in pool.pmap(_parse_block, blocks, chunksize=500) if c]
    ck.coverage.setdefault("models", {})[f"k={k}"] = {"MaxCost": cost, "states": r.distinct, "cases": len(cases)}
    ck.coverage["states"] = ck.coverage.get("states", 0) + r.distinct
    ck.coverage["transitions"] = ck.coverage.get("transitions", 0) + r.generated
    return cases


def nontrivial(c):
    return any(u["only"] or u["items"] for M in c["mods"] for u in M["uses"]) or any(M["dflt"] == "private" or M["acc"] for M in c["mods"])


def run(tier, seed, ck: Check):
    big = tier == "thorough"
    dev = as_built_dev()
    scratch = tlc.scratch_dir("verif-c06-")
    try:
        mod, cfg = tlc.make_model(scratch, "Scopes", {"Ents": frozenset({"a", "b"}), "Aliases": frozenset({"c"}), "NameOrder": NAMES,
                                                      "MaxMods": 2, "MaxCost": 2, "Dev": frozenset()}, name="MCvac", spec="Spec",
                                  invariants=["NeverRenamed"])
        if tlc.run(mod, cfg, workers=4, timeout=600).ok:
            raise tlc.TLCFailure("vacuity guard NeverRenamed not violated")
        cases = []
        cases += generate(scratch, 1, 4 if big else 3, dev, ck)
        cases += generate(scratch, 2, 4 if big else 3, dev, ck)
        cases += generate(scratch, 3, 3 if big else 2, dev, ck)
        ALL_STYLES = ((0, "program"), (1, "program"), (0, "modproc"), (1, "modproc"), (0, "hosted"), (1, "hosted"), (0, "program-stubname"), (0, "modproc-stubname"))
        small = {1: 3, 2: 3, 3: 2}      # the quick tier's cost bounds per number of modules
        for c in cases:
            c["tier"] = tier
            h = zlib.crc32(json.dumps(c["mods"], sort_keys=True).encode())
            # thorough: every kind map and every placement for the cases the quick tier samples from, one (hashed) variant for the
            # larger ones - the full product would be some 10^9 runs
            full = big and c["cost"] <= small[len(c["mods"]) - 1] and len(c["mods"]) - 1 <= 2
            c["kindmaps"] = ("K1", "K2", "K3") if full else (("K1", "K2", "K3")[h % 3],)
            c["styles"] = ALL_STYLES if full else (((h >> 2) % 2, ("program", "modproc", "hosted", "program-stubname")[(h >> 3) % 4]),)
        ck.coverage["cases_full_variants"] = sum(1 for c in cases if len(c["styles"]) > 1)
        results = pool.pmap(evaluate, cases, chunksize=20)
        for c, rs in zip(cases, results):
            if nontrivial(c):
                ck.nontrivial_case(json.dumps(c["mods"], sort_keys=True))
            for r in rs:
                ck.count()
                if not r["bad"]:
                    continue
                if r["explained"]:
                    # every group of the explanation needs one open finding
                    if all(any(ck.known_finding(FINDING[d]) for d in group) for group in r["explained"]):
                        continue
                ck.violation("use-association", {"mods": c["mods"], "kindmap": r["km"], "style": r["style"], "placement": r["placement"], "order": r["order"]},
                             expected={n: list(v) for n, v in r["resolve"].items()}, observed=r["obs"],
                             detail="; ".join(f"{k}: FORD {o!r}, rules {e!r}" for k, e, o in r["bad"][:4]), extra={"files": r["files"]})
        for c in cases[:: max(1, len(cases) // 4)][:4]:
            ck.sample({"mods": c["mods"], "resolve": {n: list(v) for n, v in c["resolve"].items()}, "files": render(c["mods"], KINDMAPS["K1"], 0)})
        ck.coverage["traces_validated_against_impl"] = 0
        ck.assumptions += [
            "entity names are declared in exactly one module; imported names never clash (illegal Fortran is not generated)",
            "when one module is USEd twice in a scoping unit and some statement renames, every statement for it has ONLY",
            "placement '*-stubname': module m1 is called omp_lib, a name FORD also knows as an external module; the project's own module is the one a USE refers to",
            "placement 'hosted': the probe procedures stand in a module that itself has a plain `use m1`; a name their own USE statements make accessible hides the host's (F2018 19.5.1.4), any other name of m1's exports is host associated",
            "resolution is observed through probe references (type(n), procedure(n) pointer, namelist, call n(), x = n(1)) in a program; a probe of a name that is not accessible is expected to stay unresolved text",
            "file orders: ascending and descending (quick) / all permutations (thorough, <= 5 files)",
        ]
    finally:
        shutil.rmtree(scratch, ignore_errors=True)


def replay_file(path, ck):
    rec = json.load(open(path))
    c = rec["case"]
    kindmap = KINDMAPS[c["kindmap"]]
    files = rec.get("files") or render(c["mods"], kindmap, c["style"], c.get("placement", "program"))
    obs = observe(files, c["order"])
    resolve = {n: tuple(v) for n, v in rec["expected"].items()}
    bad = compare(resolve, kindmap, obs)
    ck.count(); ck.nontrivial_case("r1"); ck.nontrivial_case("r2")
    ck.sample({"files": files, "observed": obs})
    if bad:
        ck.violation("use-association", c, expected=rec["expected"], observed=obs,
                     detail="; ".join(f"{k}: FORD {o!r}, rules {e!r}" for k, e, o in bad[:4]), extra={"files": files})


def main():
    a = common.args()
    ck = Check(PROP, "model_checking", a.tier, a.seed)
    try:
        if a.replay:
            replay_file(a.replay, ck)
        else:
            run(a.tier, a.seed, ck)
    except tlc.TLCFailure as e:
        return machinery_failure(PROP, str(e))
    return ck.finish(rule="cases = Complete states of spec/Scopes.tla (1-3 modules + probe, feature budget MaxCost) x kind maps x spellings x file "
                          "orders; non-trivial iff some USE has ONLY/renames or some module is default-private or names an imported entity in an "
                          "access statement; distinct by abstract project", exhaustive=True)


if __name__ == "__main__":
    sys.exit(main())
