#!/venv/bin/python
"""C08 - recorded calls are exactly the user procedures a unit invokes.

Spec: spec/Calls.tla (statement forms x expression trees -> CallSet).  Every statement TLC enumerates is
rendered inside a program, a module subroutine and a module function (plain, continued and ';'-joined
layouts), parsed and correlated by the real FORD, and the names in unit.calls compared with CallSet.
"""
from __future__ import annotations
import json
import os
import shutil
import sys
import zlib

sys.path.insert(0, os.path.dirname(os.path.abspath(__file__)))
import common  # noqa: E402
from vlib import tlc, tlaval, pool, fordrun  # noqa: E402
from vlib.verdict import Check, machinery_failure  # noqa: E402

PROP = "C08"

LIB = """module lib
  implicit none
contains
  function fa(a) result(r)
    real :: a, r
    r = a
  end function fa
  function fb(a, b) result(r)
    real :: a, b, r
    r = a + b
  end function fb
  function size_of(a) result(r)
    real :: a, r
    r = a
  end function size_of
  subroutine p(a)
    real, optional :: a
  end subroutine p
  subroutine iffy(a)
    real :: a
  end subroutine iffy
  function weights(a) result(r)
    integer :: a
    real :: r
    r = a
  end function weights
end module lib
"""

SHAPES = """module shapes
  implicit none
  type :: circle
    real :: r
  contains
    procedure :: reset => circle_reset
    procedure :: area => circle_area
  end type circle
  type :: logger
    integer :: n
  contains
    procedure :: reset => logger_reset
  end type logger
contains
  subroutine circle_reset(self)
    class(circle) :: self
  end subroutine circle_reset
  function circle_area(self) result(a)
    class(circle) :: self
    real :: a
    a = self%r
  end function circle_area
  subroutine logger_reset(self)
    class(logger) :: self
  end subroutine logger_reset
end module shapes
"""


def expr(e):
    if e["k"] == "atom":
        return e["f"]
    if e["k"] == "group":
        return f"({expr(e['a1'][0])} + 1.0) * 2.0"
    if e["k"] == "call1":
        return f"{e['f']}({expr(e['a1'][0])})"
    return f"{e['f']}({expr(e['a1'][0])}, {expr(e['a2'][0])})"


def stmt_lines(form, args):
    a = [expr(x) for x in args]
    n = form["n"]
    return {
        "assign": [f"x = {a[0]}"] if a else [],
        "sum": [f"x = {a[0]} + 2.0 * {a[1]}"] if len(a) > 1 else [],
        "call0": ["call p"],
        "call0p": ["call p()"],
        "call1": [f"call p({a[0]})"] if a else [],
        "callkw": [f"call iffy({a[0]})"] if a else [],
        "ifcall": [f"if ({a[0]} > 0) call p({a[1]})"] if len(a) > 1 else [],
        "ifassign": [f"if ({a[0]} > 0) x = {a[1]}"] if len(a) > 1 else [],
        "ifthen": [f"if ({a[0]} > 0) then", "  x = 1", "end if"] if a else [],
        "elseif": [f"if ({a[0]} > 0) then", "  x = 1", f"else if ({a[1]} < 0) then", "  x = 2", "end if"] if len(a) > 1 else [],
        "where": [f"where (sinx > {a[0]}) sinx = 0"] if a else [],
        "dowhile": [f"do while ({a[0]} < 3)", "  x = x + 1", "end do"] if a else [],
        "select": [f"select case (int({a[0]}))", "case default", "  x = 0", "end select"] if a else [],
        "associate": [f"associate (z => {a[0]})", "  x = 2", "end associate"] if a else [],
        "print": [f"print *, {a[0]}"] if a else [],
        "write": [f"write (*, *) {a[0]}"] if a else [],
        "writefmt": [f"write (*, '(a, f6.2)') 'call fa(x)', {a[0]}"] if a else [],
        "allocate": [f"allocate (arr(int({a[0]})))"] if a else [],
        "format": ["10 format (i3, f(2))"],
        "arithif": ["if (x) 10, 20, 30"],
        "cgoto": ["go to (10, 20) i"],
        "cgoto_label": ["5 go to (10, 20), i"],
        "cgoto_if": [f"if ({a[0]} > 0) go to (10, 20), i"] if a else [],
        "cgoto_one": ["goto (10, 20) i"],
        "impdo": [f"print *, ({a[0]}, i = 1, 3)"] if a else [],
        "callgroup": [f"call p(({a[0]} - 1.0) * 0.5)"] if a else [],
        "blockdecl": ["block", "  integer :: q(3)", f"  q(1) = int({a[0]})", "end block"] if a else [],
        "tbcall": ["call c%reset()"],
        "tbfunc": ["x = c%area()"],
        "assoc_tb": ["associate (obj => c)", "  call obj%reset()", "end associate"],
        "assoc_shadow": ["associate (obj => c)", "  associate (obj => l)", "    call obj%reset()", "  end associate", "end associate"],
        "assoc_inner_outer": ["associate (obj => c)", "  associate (obj => l)", "    call obj%reset()", "  end associate", "  x = obj%area()", "end associate"],
        "assoc_elem": ["associate (obj => cs(2))", "  call obj%reset()", "end associate"],
        "assoc_section": ["associate (row => sinx(2:3))", "  x = row(1)", "end associate"],
        "assoc_funcsel": [f"associate (z => {a[0]})", "  x = z + z", "end associate"] if a else [],
        "extern": ["x = extf(1.0)"],
        "tb_two": ["call c%reset()", "call l%reset()"],
        "shadow_local": [f"x = weights(2) + {a[0]}"] if a else [],
        "shadow_dummy": ["call inner()"],
        "return": ["x = 0"],
    }[n]


DECLS = ["use lib", "use shapes", "implicit none", "type(circle) :: c", "type(circle) :: cs(3)", "real :: extf", "external extf", "type(logger) :: l", "real :: x, callme", "real :: sinx(10)", "real :: weights(3)", "real, allocatable :: arr(:)", "integer :: i"]
LABELS = ["10 continue", "20 continue", "30 continue"]


def layout(lines, style):
    if style == 0:
        return lines
    if style == 1:          # continuation after the first blank outside quotes of each line longer than 12 characters
        out = []
        for l in lines:
            cut = _cut(l)
            out += [l[:cut] + " &", "    & " + l[cut:].lstrip()] if cut else [l]
        return out
    # ';'-joined with a harmless statement
    return [("i = 1; " + l) if not l[:1].isdigit() and not l.startswith(("if", "else", "end", "do", "select", "case", "associate", "block", "where", "  ")) else l
            for l in lines]


def _cut(l):
    q = ""
    depth = 0
    for i, c in enumerate(l):
        if q:
            if c == q:
                q = ""
        elif c in "'\"":
            q = c
        elif c == " " and i > 6 and i < len(l) - 3:
            return i
    return 0


INNER = ["contains", "  subroutine inner()", "    real :: y", "    y = weights(2)", "    x = y * sinx(1)", "  end subroutine inner"]


def render(form, args, unit, style):
    body = layout(stmt_lines(form, args), style) + LABELS
    if form["n"] == "shadow_dummy":          # an internal procedure that subscripts arrays of its host
        body = body + (INNER if unit != "function" else [])
    ind = lambda ls, k: ["  " * k + x for x in ls]
    if unit == "program":
        return {"lib.f90": LIB, "shapes.f90": SHAPES, "u.f90": "\n".join(["program u"] + ind(DECLS + body, 1) + ["end program u"]) + "\n"}
    if unit == "subroutine":
        return {"lib.f90": LIB, "shapes.f90": SHAPES, "u.f90": "\n".join(["module host", "contains", "  subroutine u()"] + ind(DECLS + body, 2) + ["  end subroutine u", "end module host"]) + "\n"}
    return {"lib.f90": LIB, "shapes.f90": SHAPES, "u.f90": "\n".join(["module host", "contains", "  function u() result(res)"] + ind(DECLS + ["real :: res"] + body + ["res = x"] + (INNER if form["n"] == "shadow_dummy" else []), 2)
                                               + ["  end function u", "end module host"]) + "\n"}


def observe(files, unit):
    p = fordrun.project(files)
    if unit == "program":
        u = next((x for x in p.programs if x.name == "u"), None)
    else:
        host = next((m for m in p.modules if m.name == "host"), None)
        u = next((x for x in (host.routines if host else []) if x.name == "u"), None)
    if u is None:
        return None
    def nm(c):
        if isinstance(c, str):
            return c.lower()
        if type(c).__name__ == "FortranBoundProcedure":
            return f"{c.parent.name}%{c.name}".lower()
        return c.name.lower()
    inner = next((x for x in getattr(u, "routines", []) if x.name == "inner"), None)
    return [nm(c) for c in u.calls], [isinstance(c, str) for c in u.calls], ([nm(c) for c in inner.calls] if inner is not None else None)


def evaluate(case):
    form, args, want = case["form"], case["args"], sorted(case["callset"])
    out = []
    for unit in case["units"]:
        for style in case["styles"]:
            files = render(form, args, unit, style)
            try:
                res = observe(files, unit)
            except Exception as ex:
                out.append({"unit": unit, "style": style, "bad": f"FORD failed: {type(ex).__name__}: {ex}", "src": files["u.f90"], "tag": "crash"})
                continue
            if res is None:
                out.append({"unit": unit, "style": style, "bad": "unit u not reported", "src": files["u.f90"], "tag": "missing"})
                continue
            names, unresolved, inner_calls = res
            bad = None
            tag = "calls"
            if form["n"] == "shadow_dummy" and inner_calls != []:
                out.append({"unit": unit, "style": style, "src": files["u.f90"], "tag": "calls",
                            "bad": f"internal procedure inner subscripts the host's arrays weights and sinx and invokes nothing: recorded calls {inner_calls}"})
            if sorted(names) != want:
                extra = sorted(set(names) - set(want))
                missing = sorted(set(want) - set(names))
                dup = sorted({n for n in names if names.count(n) > 1})
                bad = f"recorded calls {sorted(names)}, invoked {want}" + (f" (spurious {extra})" if extra else "") + (f" (missing {missing})" if missing else "") + (f" (twice {dup})" if dup else "")
                if extra == ["q"] and not missing and not dup:
                    tag = "block-decl"
                elif form["n"] == "tb_two" and sorted(names) == ["circle%reset"]:
                    tag = "tb-dedup"                    # as built: call chains are de-duplicated by their last component only
                elif form["n"] == "cgoto_if" and not names and not extra and not dup:
                    tag = "cgoto-line-skipped"          # as built: a line holding a computed GO TO is not scanned at all
            elif any(u for n_, u in zip(names, unresolved) if n_ != "extf"):      # extf is an external function: there is nothing to resolve it to
                bad = f"calls {names} recorded but not resolved to the procedures of module lib"
                tag = "unresolved"
            if bad:
                out.append({"unit": unit, "style": style, "bad": bad, "src": files["u.f90"], "tag": tag})
    return out


def _parse_block(block):
    if '/\\ phase = "done"' not in block:
        return None
    st = tlaval.parse_state(block)
    def ex(e):
        return {"k": e["k"], "f": e["f"], "a1": [ex(x) for x in e["a1"]], "a2": [ex(x) for x in e["a2"]]}
    form = dict(st["form"])
    form["subs"] = sorted(form["subs"])
    return {"form": form, "args": [ex(a) for a in st["args"]], "callset": sorted(st["out"])}


def run(tier, seed, ck: Check):
    big = tier == "thorough"
    scratch = tlc.scratch_dir("verif-c08m-")
    try:
        mod, cfg = tlc.make_model(scratch, "Calls", {}, name="MCvac", spec="Spec", invariants=["NeverNested"])
        if tlc.run(mod, cfg, workers=4, timeout=600).ok:
            raise tlc.TLCFailure("vacuity guard NeverNested not violated")
        mod, cfg = tlc.make_model(scratch, "Calls", {}, name="MC", spec="Spec", invariants=["IntrinsicsAndVariablesNeverCalls", "LiteralsNeverCalls"])
        dump = os.path.join(scratch, "gen")
        r = tlc.run(mod, cfg, workers=8, dump=dump, timeout=900)
        if not r.ok:
            raise tlc.TLCFailure(f"Calls: {r.violated} violated")
        cases = [c for c in pool.pmap(_parse_block, tlc.read_dump_blocks(r.dump_file), chunksize=500) if c]
        os.remove(r.dump_file)
        ck.coverage["states"] = r.distinct
        ck.coverage["transitions"] = r.generated
    finally:
        shutil.rmtree(scratch, ignore_errors=True)
    for c in cases:
        h = zlib.crc32(json.dumps([c["form"], c["args"]], sort_keys=True).encode())
        c["units"] = ("program", "subroutine", "function") if big else (("program", "subroutine", "function")[h % 3],)
        c["styles"] = (0, 1, 2) if big else ((h >> 2) % 3,)
    if not big:
        cases = [c for c in cases if zlib.crc32(json.dumps([c["form"]["n"], c["args"]], sort_keys=True).encode()) % 2 == seed % 2 or c["form"]["slots"] == 0]
    for c, res in zip(cases, pool.pmap(evaluate, cases, chunksize=40)):
        ck.count(len(c["units"]) * len(c["styles"]))
        if c["callset"] or c["form"]["n"] in ("format", "arithif", "cgoto", "cgoto_label", "cgoto_if", "cgoto_one", "writefmt", "blockdecl"):
            ck.nontrivial_case(json.dumps([c["form"]["n"], c["args"]], sort_keys=True))
        for r_ in res:
            if r_["tag"] == "block-decl" and ck.known_finding("C08-F1"):
                continue
            if r_["tag"] == "cgoto-line-skipped" and ck.known_finding("C08-F2"):
                continue
            if r_["tag"] == "tb-dedup" and ck.known_finding("C08-F3"):
                continue
            ck.violation("calls", {"form": c["form"], "args": c["args"], "unit": r_["unit"], "style": r_["style"], "callset": c["callset"]},
                         detail=f"[{r_['unit']}/layout {r_['style']}] {stmt_lines(c['form'], c['args'])!r}: {r_['bad']}", extra={"source": r_["src"]})
    ck.coverage["traces_validated_against_impl"] = 0
    ck.sample({"statement": stmt_lines(cases[len(cases) // 2]["form"], cases[len(cases) // 2]["args"]), "callset": cases[len(cases) // 2]["callset"]})
    ck.assumptions += [
        "user procedures never carry the exact name of an intrinsic or keyword (overlap means shared prefixes / suffixes: size_of, sinx, iffy, callme)",
        "every invoked procedure lives in a USEd module, so each recorded call must also be resolved to that procedure",
    ]


def replay_file(path, ck):
    rec = json.load(open(path))
    c = rec["case"]
    res = evaluate({"form": c["form"], "args": c["args"], "callset": c["callset"], "units": (c["unit"],), "styles": (c["style"],)})
    ck.count(); ck.nontrivial_case("r1"); ck.nontrivial_case("r2")
    ck.sample({"case": c, "result": res})
    for r_ in res:
        if r_["tag"] == "block-decl" and ck.known_finding("C08-F1"):
            continue
        if r_["tag"] == "cgoto-line-skipped" and ck.known_finding("C08-F2"):
            continue
        ck.violation("calls", c, detail=r_["bad"], extra={"source": r_["src"]})


def main():
    a = common.args()
    ck = Check(PROP, "exploration", a.tier, a.seed)
    try:
        if a.replay:
            replay_file(a.replay, ck)
        else:
            run(a.tier, a.seed, ck)
    except tlc.TLCFailure as e:
        return machinery_failure(PROP, str(e))
    return ck.finish(rule="cases = statements of spec/Calls.tla (37 statement forms x expression trees of depth <= 2 over user functions, intrinsics, an "
                          "array, scalars and a literal containing call-like text) rendered in program / module subroutine / module function and in "
                          "plain / continued / ';'-joined layout; non-trivial iff the statement invokes something or is a form that must not be "
                          "scanned; distinct by (form, expressions)", exhaustive=(a.tier == "thorough"))


if __name__ == "__main__":
    sys.exit(main())
