#!/venv/bin/python
"""C13 - every graph shows exactly the relation it is documented to show.

Spec: spec/GraphBFS.tla (Ref = reachability up to depth / node limits, Impl = add_nodes/add_to_graph hop
machine, ModelEqualsReach / EdgesJoinPresentNodes / WithinLimit).  Every relation TLC enumerates is
realised as a Fortran project per graph kind (module USE, calls, type composition, type extension),
the graph objects are built by the real ford.graphs and nodes / edges / table fallback of the forward
and the inverse per-entity graph of every entity are compared with Ref.  add_to_graph calls are recorded
and checked against the hop machine (direction 2).
"""
from __future__ import annotations
import json
import os
import random
import re
import shutil
import sys
import zlib

sys.path.insert(0, os.path.dirname(os.path.abspath(__file__)))
import common  # noqa: E402
from vlib import tlc, tlaval, pool, fordrun  # noqa: E402
from vlib.verdict import Check, machinery_failure, load_known  # noqa: E402

PROP = "C13"
KINDS = {"uses": True, "calls": False, "comp": False, "ext": True, "files": True}     # kind -> relation must be acyclic


def render(kind, n, rel, meta=None):
    """meta: entity number -> list of metadata lines placed in its doc comment"""
    meta = meta or {}
    md = lambda i, ind: "".join(f"{ind}!! {l}\n" for l in meta.get(i, []))
    succ = {i: sorted(j for (a, j) in rel if a == i) for i in range(1, n + 1)}
    if kind == "uses":
        return {f"g{i}.f90": f"module g{i}\n" + md(i, "  ") + "".join(f"  use g{j}\n" for j in succ[i]) + f"  integer :: v{i}\nend module g{i}\n"
                for i in range(1, n + 1)}
    if kind == "files":
        # file gI.f90 depends on file gJ.f90 through a USE of module gJ somewhere inside it: in the specification part of its
        # module, in a module procedure, or in an internal procedure of a module procedure
        out = {}
        for i in range(1, n + 1):
            lvl = {0: [], 1: [], 2: []}
            for j in succ[i]:
                lvl[(i + j) % 3].append(f"use g{j}\n")
            out[f"g{i}.f90"] = (md(i, "") + f"module g{i}\n" + "".join("  " + u for u in lvl[0]) + f"  integer :: v{i}\ncontains\n  subroutine s{i}()\n"
                                + "".join("    " + u for u in lvl[1]) + f"  contains\n    subroutine in{i}()\n" + "".join("      " + u for u in lvl[2])
                                + f"    end subroutine in{i}\n  end subroutine s{i}\nend module g{i}\n")
        return out
    if kind == "tbcalls":
        # calls through generic type-bound names that have exactly one specific: p_i -> box%g_j -> p_j
        head = ("module tb\n  type :: box\n    integer :: v\n  contains\n    procedure :: " + ", ".join(f"p{i}" for i in range(1, n + 1)) + "\n"
                + "".join(f"    generic :: g{i} => p{i}\n" for i in range(1, n + 1)) + "  end type box\ncontains\n")
        body = "".join(f"  subroutine p{i}(self)\n" + md(i, "    ") + "    class(box) :: self\n" + "".join(f"    call self%g{j}()\n" for j in succ[i])
                       + f"  end subroutine p{i}\n" for i in range(1, n + 1))
        return {"tb.f90": head + body + "end module tb\n"}
    if kind == "icalls":
        # the relation among INTERNAL procedures q1..qn of one module procedure; the host calls every one of them
        inner = "".join(f"    subroutine q{i}()\n" + "".join(f"      call q{j}()\n" for j in succ[i]) + f"    end subroutine q{i}\n" for i in range(1, n + 1))
        return {"host.f90": "module hostm\ncontains\n  subroutine host0()\n" + "".join(f"    call q{i}()\n" for i in range(1, n + 1)) + "  contains\n" + inner
                            + "  end subroutine host0\nend module hostm\n"}
    if kind == "calls":
        # besides its calls, p_i subscripts a local array that carries the name of a procedure it does NOT call: no edge
        def shadow(i):
            k = next((k for k in range(1, n + 1) if k != i and k not in succ[i]), None)
            return (f"    real :: p{k}(3), zz{i}\n", f"    zz{i} = p{k}(2)\n") if k else ("", "")
        body = "".join(f"  subroutine p{i}()\n" + md(i, "    ") + shadow(i)[0] + "".join(f"    call p{j}()\n" for j in succ[i]) + shadow(i)[1] + f"  end subroutine p{i}\n" for i in range(1, n + 1))
        return {"procs.f90": f"module procs\ncontains\n{body}end module procs\n"}
    if kind == "comp":
        body = "".join(f"  type :: t{i}\n" + md(i, "    ") + f"    integer :: own{i}\n" + "".join(f"    type(t{j}), pointer :: c{i}_{j}\n" for j in succ[i]) + f"  end type t{i}\n"
                       for i in range(n, 0, -1))
        # one more type extends t1: it inherits t1's components, it does not contain them a second time
        child = f"  type, extends(t1) :: t{n + 1}\n    integer :: own{n + 1}\n  end type t{n + 1}\n" if meta.get("_child") else ""
        return {"types.f90": f"module types\n{body}{child}end module types\n"}
    if kind == "ext":
        body = "".join(f"  type{', extends(t%d)' % succ[i][0] if succ[i] else ''} :: t{i}\n" + md(i, "    ") + f"    integer :: own{i}\n  end type t{i}\n" for i in range(n, 0, -1))
        return {"types.f90": f"module types\n{body}end module types\n"}
    raise ValueError(kind)


_EDGE = re.compile(r'^\s*"?([\w~.]+)"?\s*->\s*"?([\w~.]+)"?', re.M)
_NUM = re.compile(r"(\d+)$")
_FNUM = re.compile(r"g(\d+)\.f90$")


def _num(ident):
    if ident.startswith("none~g"):                  # the node of a type-bound generic name
        return 100 + int(_NUM.search(ident).group(1))
    m = _FNUM.search(ident) or _NUM.search(ident)
    return int(m.group(1)) if m else -1


def graph_obs(g):
    """(nodes, edges, table nodes) of a graph object as sets of entity numbers."""
    nodes = {_num(x.ident) for x in g.added}
    edges = {(_num(a), _num(b)) for a, b in _EDGE.findall(g.dot.source)}
    table = {_num(x.ident) for x in g.hop_nodes} if (len(g.hop_nodes) > 0 and len(g.root) == 1) else set()
    return nodes, edges, table


REC = []


def _install_recorder():
    """Harness-side recorder at FortranGraph.add_to_graph (public call boundary)."""
    import ford.graphs as fg
    if getattr(fg.FortranGraph, "_verif_wrapped", False):
        return
    orig = fg.FortranGraph.add_to_graph

    def wrapped(self, nodes, edges, nesting):
        before = len(self.added)
        ret = orig(self, nodes, edges, nesting)
        REC.append({"graph": self.ident, "n_new": len(nodes), "before": before, "nesting": nesting, "limit": self.max_nodes,
                    "accepted": bool(ret), "after": len(self.added)})
        return ret

    fg.FortranGraph.add_to_graph = wrapped
    fg.FortranGraph._verif_wrapped = True


def build_graphs(files, depth, limit):
    import ford.graphs as fg
    from ford.graphs import GraphManager
    _install_recorder()
    REC.clear()
    project = fordrun.project(files, graph=True, graph_maxdepth=depth, graph_maxnodes=limit)
    gm = GraphManager(graphdir="", parentdir="..", coloured_edges=True, show_proc_parent=False)
    for entity_list in [project.types, project.procedures, project.submodprocedures, project.modules, project.submodules,
                        project.programs, project.files, project.blockdata]:
        for item in entity_list:
            gm.register(item)
    saved = fg.graphviz_installed
    fg.graphviz_installed = False          # DOT sources are built all the same; rendering to SVG is not needed here
    try:
        gm.graph_all()
    finally:
        fg.graphviz_installed = saved
    return project, gm


def evaluate(case):
    kind, n, rel, depth, limit = case["kind"], case["n"], {tuple(e) for e in case["rel"]}, case["depth"], case["limit"]
    if case.get("per_entity"):
        # the limits are given in every entity's own documentation metadata; the project-wide ones are unlimited
        files = render(kind, n, rel, {i: [f"graph_maxdepth: {depth}", f"graph_maxnodes: {limit}"] for i in range(1, n + 1)})
        depth_, limit_ = 10000, 1000000000
    else:
        files = render(kind, n, rel, {"_child": True} if (kind == "comp" and case.get("full")) else None)
        depth_, limit_ = (10000, 1000000000) if kind in ("tbcalls", "icalls") else (depth, limit)
    try:
        project, gm = build_graphs(files, depth_, limit_)
    except Exception as ex:
        return {"bad": [f"FORD failed: {type(ex).__name__}: {ex}"], "files": files, "events": []}
    if kind == "uses":
        ents = {_num(m.name): m for m in project.modules}
        attr = ("usesgraph", "usedbygraph")
    elif kind == "files":
        ents = {_num(f.name): f for f in project.files}
        attr = ("efferentgraph", "afferentgraph")
    elif kind == "calls":
        ents = {_num(p.name): p for p in project.procedures if re.fullmatch(r"p\d+", p.name)}
        attr = ("callsgraph", "calledbygraph")
    else:
        ents = {_num(t.name): t for t in project.types}
        attr = ("inhergraph", "inherbygraph")
    bad = []
    if kind == "icalls":
        # internal procedures are documented (proc_internals): their calls are edges of the project-wide call graph
        nodes, edges, _ = graph_obs(gm.callgraph)
        q = {(a, b) for (a, b) in edges if 0 < a <= n and 0 < b <= n}
        if q != rel:
            bad.append(f"project-wide call graph: calls among the internal procedures {sorted(q)}, the source has {sorted(rel)}")
        return {"bad": bad, "files": files if bad else None, "events": len(REC)}
    if kind == "tbcalls":
        ents = {_num(p.name): p for p in project.procedures if re.fullmatch(r"p\d+", p.name)}
        for r in case["refs"]:
            e = ents.get(r["root"])
            g = getattr(e, "callsgraph", None) if e is not None else None
            reach = set(r["fwd"]["nodes"])
            shown = {(a, b) for (a, b) in rel if a in reach}
            want_nodes = reach | {100 + b for (_, b) in shown}
            want_edges = {(a, 100 + b) for (a, b) in shown} | {(100 + b, b) for (_, b) in shown}
            if g is None:
                if shown:
                    bad.append(f"root {r['root']} callsgraph: no graph object")
                continue
            nodes, edges, _ = graph_obs(g)
            if nodes != want_nodes:
                bad.append(f"root {r['root']} callsgraph (type-bound generics = 100+j): nodes {sorted(nodes)}, the calls reach {sorted(want_nodes)}")
            if edges != want_edges:
                bad.append(f"root {r['root']} callsgraph (type-bound generics = 100+j): edges {sorted(edges)}, the calls are {sorted(want_edges)}")
        return {"bad": bad, "files": files if bad else None, "events": len(REC)}
    for r in case["refs"]:
        e = ents.get(r["root"])
        if e is None:
            bad.append(f"entity {r['root']} not reported")
            continue
        for direction, a in zip(("fwd", "bwd"), attr):
            ref = r[direction]
            g = getattr(e, a, None)
            if g is None:
                if not (kind == "files" and set(ref["nodes"]) == {r["root"]}):      # a file without dependencies has no dependency graph
                    bad.append(f"root {r['root']} {a}: no graph object")
                continue
            nodes, edges, table = graph_obs(g)
            if kind == "comp" and case.get("full"):        # the additional child type t(n+1) is judged on its own below
                nodes = {x for x in nodes if x != n + 1}
                edges = {(a_, b_) for (a_, b_) in edges if n + 1 not in (a_, b_)}
                table = {x for x in table if x != n + 1}
            want_nodes = set(ref["nodes"])
            emin = {tuple(x) for x in ref["emin"]}
            eind = {tuple(x) for x in ref["eind"]}
            if direction == "bwd":       # edges are drawn in the direction of the relation (user -> used)
                emin = {(b, a_) for a_, b in emin}
                eind = {(b, a_) for a_, b in eind}
            if nodes != want_nodes:
                bad.append(f"root {r['root']} {a}: nodes {sorted(nodes)} but reachable within limits {sorted(want_nodes)}")
            if not (emin <= edges <= eind):
                bad.append(f"root {r['root']} {a}: edges {sorted(edges)} not between {sorted(emin)} and {sorted(eind)}")
            if any(x not in nodes or y not in nodes for x, y in edges):
                bad.append(f"root {r['root']} {a}: dangling edge in {sorted(edges)}")
            if table != set(ref["table"]):
                bad.append(f"root {r['root']} {a}: table fallback {sorted(table)} expected {sorted(ref['table'])}")
    if kind == "comp" and case.get("full") and not case.get("per_entity"):
        ch = next((t for t in project.types if _num(t.name) == n + 1), None)
        g = getattr(ch, "inhergraph", None) if ch is not None else None
        if g is None:
            bad.append(f"type t{n + 1} (extends t1): no inherits graph")
        else:
            nodes, edges, _ = graph_obs(g)
            reach1 = set(next(r["fwd"]["nodes"] for r in case["refs"] if r["root"] == 1))
            own = {(a, b) for (a, b) in edges if a == n + 1}
            rest = {(a, b) for (a, b) in edges if a != n + 1}
            if own != {(n + 1, 1)} or not rest <= rel or not nodes <= reach1 | {n + 1}:
                bad.append(f"type t{n + 1} extends t1 (and declares no component of derived type): its inherits graph has the edges {sorted(own)} from it "
                           f"(expected only the extension edge to t1), other edges {sorted(rest - rel)} outside the relation, nodes {sorted(nodes)}")
    # direction 2: every recorded add_to_graph call obeys the hop machine's acceptance rule
    for ev in REC:
        should = not (ev["n_new"] + ev["before"] > ev["limit"])
        if ev["accepted"] != should or (ev["accepted"] and ev["after"] > ev["limit"]):
            bad.append(f"add_to_graph({ev['graph']}, nesting={ev['nesting']}): {ev['n_new']}+{ev['before']} nodes, limit {ev['limit']}, accepted={ev['accepted']}")
    return {"bad": bad, "files": files if bad else None, "events": len(REC)}


def evaluate_false(case):
    """`graph: false` on entity k: no graphs on its page, no node in the project-wide graph."""
    kind, n, rel, k = case["kind"], case["n"], {tuple(e) for e in case["rel"]}, case["k"]
    files = render(kind, n, rel, {k: ["graph: false"]})
    try:
        project, gm = build_graphs(files, 10000, 1000000000)
    except Exception as ex:
        return {"bad": [("crash", f"FORD failed: {type(ex).__name__}: {ex}")], "files": files}
    ents = {"uses": project.modules, "calls": project.procedures, "comp": project.types, "ext": project.types}[kind]
    wide = {"uses": gm.usegraph, "calls": gm.callgraph, "comp": gm.typegraph, "ext": gm.typegraph}[kind]
    e = next(x for x in ents if _num(x.name) == k)
    bad = []
    own = [a for a in ("usesgraph", "usedbygraph", "callsgraph", "calledbygraph", "inhergraph", "inherbygraph") if getattr(e, a, None)]
    if own:
        bad.append(("own-graphs", f"entity {k} has graph: false but still owns {own}"))
    if k in {_num(x.ident) for x in wide.added}:
        adjacent = any((a == k) != (b == k) for a, b in rel)
        bad.append(("wide-adjacent" if adjacent else "wide-isolated",
                    f"entity {k} has graph: false but is a node of the project-wide {kind} graph {sorted(x.ident for x in wide.added)}"))
    others = {_num(x.ident) for x in wide.added} - {k}
    return {"bad": bad, "files": files if bad else None}


def _parse_block(block):
    if '/\\ phase = "done"' not in block:
        return None
    st = tlaval.parse_state(block)
    refs = []
    for o in st["out"]:
        rr = {"root": o["root"]}
        for d in ("fwd", "bwd"):
            rr[d] = {"nodes": sorted(o[d]["nodes"]), "emin": sorted(o[d]["emin"]), "eind": sorted(o[d]["eind"]), "table": sorted(o[d]["table"])}
        refs.append(rr)
    return {"rel": sorted(st["rel"]), "depth": st["depth"], "limit": st["limit"], "refs": refs}


def generate(scratch, n, acyclic, ck, tag):
    consts = {"N": n, "Depths": frozenset({1, 2, 3}), "Limits": frozenset({1, 2, 3, 99}), "Acyclic": acyclic, "Dev": frozenset()}
    mod, cfg = tlc.make_model(scratch, "GraphBFS", consts, name=f"MC{tag}", spec="Spec",
                              invariants=["ModelEqualsReach", "EdgesJoinPresentNodes", "WithinLimit"])
    dump = os.path.join(scratch, f"gen{tag}")
    r = tlc.run(mod, cfg, workers=16, dump=dump, timeout=3000)
    if not r.ok:
        raise tlc.TLCFailure(f"GraphBFS: hop machine violates {r.violated}")
    cases = [c for c in pool.pmap(_parse_block, tlc.read_dump_blocks(r.dump_file), chunksize=1000) if c]
    os.remove(r.dump_file)
    ck.coverage["states"] = ck.coverage.get("states", 0) + r.distinct
    ck.coverage["transitions"] = ck.coverage.get("transitions", 0) + r.generated
    return cases


def run(tier, seed, ck: Check):
    big = tier == "thorough"
    scratch = tlc.scratch_dir("verif-c13-")
    try:
        mod, cfg = tlc.make_model(scratch, "GraphBFS", {"N": 3, "Depths": frozenset({1}), "Limits": frozenset({1, 2}), "Acyclic": False, "Dev": frozenset()},
                                  name="MCvac", spec="Spec", invariants=["NeverTruncated"])
        if tlc.run(mod, cfg, workers=4, timeout=600).ok:
            raise tlc.TLCFailure("vacuity guard NeverTruncated not violated")
        # the seeded-bug demonstration of the model itself: '>=' in the limit test breaks ModelEqualsReach
        mod, cfg = tlc.make_model(scratch, "GraphBFS", {"N": 3, "Depths": frozenset({1, 2}), "Limits": frozenset({1, 2, 3}), "Acyclic": False, "Dev": frozenset({"GE"})},
                                  name="MCge", spec="Spec", invariants=["ModelEqualsReach"])
        if tlc.run(mod, cfg, workers=4, timeout=600).ok:
            raise tlc.TLCFailure("ModelEqualsReach does not notice the >= deviation: property vacuous")
        n = 4 if big else 3
        cyc = generate(scratch, n, False, ck, "c")
        acy = generate(scratch, 4, True, ck, "a")
        rng = random.Random(seed)
        cases = []
        dmax, lmax = max(c["depth"] for c in cyc), max(c["limit"] for c in cyc)
        for c in cyc:
            for kind in ("calls", "comp"):
                cases.append(dict(c, kind=kind, n=n))
            if c["depth"] == dmax and c["limit"] == lmax:       # unlimited graphs only: a call through a binding takes two hops
                cases.append(dict(c, kind="tbcalls", n=n))
                cases.append(dict(c, kind="icalls", n=n))
                cases[-3]["full"] = True                        # the composition case above also gets a type that extends t1
        for c in acy:
            cases.append(dict(c, kind="uses", n=4))
            cases.append(dict(c, kind="files", n=4))
            outdeg = {}
            for a, b in c["rel"]:
                outdeg[a] = outdeg.get(a, 0) + 1
            if all(v <= 1 for v in outdeg.values()):
                cases.append(dict(c, kind="ext", n=4))
        if not big:
            # deterministic third of the cases per seed
            cases = [c for c in cases if zlib.crc32(json.dumps([c["kind"], c["rel"], c["depth"], c["limit"]]).encode()) % 3 == seed % 3]
        elif len(cases) > 120000:
            cases = rng.sample(cases, 120000)
        for c in cases:
            c["per_entity"] = zlib.crc32(json.dumps([c["rel"], c["kind"]]).encode()) % 4 == 0 and c["kind"] not in ("tbcalls", "icalls")
        results = pool.pmap(evaluate, cases, chunksize=20)
        nev = 0
        for c, r in zip(cases, results):
            ck.count()
            nev += r["events"] if isinstance(r["events"], int) else 0
            if len(c["rel"]) >= 2:
                ck.nontrivial_case(json.dumps([c["kind"], c["rel"], c["depth"], c["limit"]]))
            for b in r["bad"][:3]:
                ck.violation("graph", {"kind": c["kind"], "n": c["n"], "rel": c["rel"], "depth": c["depth"], "limit": c["limit"], "per_entity": c["per_entity"], "refs": c["refs"]},
                             detail=b, extra={"files": r["files"]})
        # `graph: false` on one entity (every 5th case, full limits)
        fcases = [dict(kind=c["kind"], n=c["n"], rel=c["rel"], k=1 + zlib.crc32(json.dumps(c["rel"]).encode()) % c["n"])
                  for c in cases[::5] if c["depth"] == 3 and c["limit"] == 99 and c["kind"] not in ("files", "tbcalls", "icalls")]
        for c, r in zip(fcases, pool.pmap(evaluate_false, fcases, chunksize=20)):
            ck.count()
            ck.nontrivial_case(json.dumps(["graph-false", c["kind"], c["rel"], c["k"]]))
            for tag, b in r["bad"]:
                if tag == "wide-adjacent" and ck.known_finding("C13-F1"):
                    continue
                ck.violation("graph-false", c, detail=b, extra={"files": r["files"]})
        ck.coverage["graph_false_cases"] = len(fcases)
        ck.coverage["traces_validated_against_impl"] = len(cases)
        ck.coverage["add_to_graph_events_checked"] = nev
        for c in cases[:: max(1, len(cases) // 3)][:3]:
            ck.sample({"kind": c["kind"], "relation": c["rel"], "graph_maxdepth": c["depth"], "graph_maxnodes": c["limit"], "ref_root1": c["refs"][0]})
        ck.assumptions += [
            "graph_maxdepth >= 1 (the guide does not say what depth 0 shows)",
            "edges of a truncated graph: at least every edge leaving an expanded node, at most the relation restricted to the shown nodes",
            "USE and extension relations are generated acyclic (Fortran); calls and composition arbitrary incl. self loops",
            "graph objects are built through ford.graphs.GraphManager exactly as the repository's own test fixture does (register in Documentation's order, graph_all); SVG rendering is switched off for speed, the DOT source is what is compared",
        ]
    finally:
        shutil.rmtree(scratch, ignore_errors=True)


def replay_file(path, ck):
    rec = json.load(open(path))
    c = rec["case"]
    ck.count(); ck.nontrivial_case("r1"); ck.nontrivial_case("r2")
    if rec["kind"] == "graph-false":
        r = evaluate_false(c)
        ck.sample({"case": c, "problems": r["bad"]})
        for tag, b in r["bad"]:
            if tag == "wide-adjacent" and ck.known_finding("C13-F1"):
                continue
            ck.violation("graph-false", c, detail=b, extra={"files": r["files"]})
        return
    r = evaluate(c)
    ck.sample({"case": {k: c[k] for k in ("kind", "rel", "depth", "limit")}, "problems": r["bad"][:4]})
    for b in r["bad"][:3]:
        ck.violation("graph", c, detail=b, extra={"files": r["files"]})


def main():
    a = common.args()
    ck = Check(PROP, "model_checking", a.tier, a.seed)
    try:
        if a.replay:
            replay_file(a.replay, ck)
        else:
            run(a.tier, a.seed, ck)
    except tlc.TLCFailure as e:
        return machinery_failure(PROP, str(e))
    return ck.finish(rule="cases = (relation on 3-4 nodes, graph_maxdepth in 1..3, graph_maxnodes in {1,2,3,99}) from spec/GraphBFS.tla x graph kind "
                          "{uses, calls, composition, extension}; for every entity the forward and the inverse per-entity graph are compared; "
                          "non-trivial iff the relation has >= 2 edges; distinct by (kind, relation, limits)", exhaustive=False)


if __name__ == "__main__":
    sys.exit(main())
