#!/venv/bin/python
"""C03 - each doc comment lands on its entity, complete, once and in order.

Specs: spec/DocRoute.tla (routing: reader mechanism composed with the parser's docstring consumption,
EachDocOnItsEntity / NoLeakToContainer) and spec/Admonition.tla (note-box rewriting:
WordsPreservedInOrder / ErrorsReported / StartsBecomeNotes).
Replay: every unit body TLC generates is rendered as Fortran in several contexts and marker sets and
parsed by the real FORD (entity.doc_list); every documentation body TLC generates is run through the real
AdmonitionPreprocessor (compared line by line with the model) and through the full markdown conversion
(words once, in order).
"""
from __future__ import annotations
import html
import json
import os
import re
import shutil
import sys
import zlib

sys.path.insert(0, os.path.dirname(os.path.abspath(__file__)))
import common  # noqa: E402
from vlib import tlc, tlaval, pool, fordrun  # noqa: E402
from vlib.verdict import Check, machinery_failure, load_known  # noqa: E402

PROP = "C03"
PLACEMENTS = ["none", "inline", "after1", "after2", "pre1", "pre2", "altafter2", "altpre2", "pre1_inline", "pre1_after1"]
SEPS = ["none", "blank", "comment", "blank_comment"]
MARKSETS = {
    "default": {"docmark": "!", "predocmark": ">", "docmark_alt": "*", "predocmark_alt": "|"},
    "swapped": {"docmark": "<", "predocmark": "!", "docmark_alt": "~", "predocmark_alt": "^"},
}


# ---------------------------------------------------------------- routing: rendering
def n_before(p):
    return {"pre1": 1, "pre1_inline": 1, "pre1_after1": 1, "pre2": 2, "altpre2": 2}.get(p, 0)


def n_after(p):
    return {"after1": 1, "pre1_after1": 1, "after2": 2, "altafter2": 2}.get(p, 0)


def n_docs(p):
    return n_before(p) + (1 if p in ("inline", "pre1_inline") else 0) + n_after(p)


def word(n):
    return f"w{n:02d}x"


def text(n):
    """What a documentation line says: its tracer word, the same word in double and in single quotes, and an apostrophe."""
    w = word(n)
    return f"{w} \"{w}q\" and '{w}r' don't"


def words_of(n):
    w = word(n)
    return [w, w + "q", w + "r"]


def expected_words(first, count):
    return [x for k in range(count) for x in words_of(first + k)]


META_OK = ("pre1", "pre2", "after1", "after2", "pre1_after1")      # placements whose first comment stands on a line of its own


def meta_value(nd):
    return f"au{nd:02d}y"


def entity_lines(i, e, nd, marks, stmt, closer, ind="  ", meta=False):
    """Lines of entity i following DocRoute.AddEntity, with real statements.  meta: the entity's documentation starts with a
    metadata line (`author: ...`) in the style of its first comment."""
    p = e["p"]
    D, P, DA, PA = marks["docmark"], marks["predocmark"], marks["docmark_alt"], marks["predocmark_alt"]
    out = []
    meta = meta and p in META_OK
    if meta and p in ("pre1", "pre2", "pre1_after1"):
        out.append(f"{ind}!{P} author: {meta_value(nd)}")
    if p in ("pre1", "pre1_inline", "pre1_after1"):
        out.append(f"{ind}!{P} {text(nd)}")
    elif p == "pre2":
        out += [f"{ind}!{P} {text(nd)}", f"{ind}!{P} {text(nd + 1)}"]
    elif p == "altpre2":
        out += [f"{ind}!{PA} {text(nd)}", f"{ind}! {text(nd + 1)}"]
    if e["gap"] == "blank":
        out.append("")
    m = nd + n_before(p)
    if p in ("inline", "pre1_inline"):
        out.append(f"{ind}{stmt} !{D} {text(m)}")
    else:
        out.append(f"{ind}{stmt}")
    if meta and p in ("after1", "after2"):
        out.append(f"{ind}!{D} author: {meta_value(nd)}")
    if p in ("after1", "pre1_after1"):
        out.append(f"{ind}!{D} {text(m)}")
    elif p == "after2":
        out += [f"{ind}!{D} {text(m)}", f"{ind}!{D} {text(m + 1)}"]
    elif p == "altafter2":
        out += [f"{ind}!{DA} {text(m)}", f"{ind}! {text(m + 1)}"]
    out += closer
    out += {"none": [], "blank": [""], "comment": [f"{ind}! c"], "blank_comment": ["", f"{ind}! c"]}[e["sep"]]
    return out


RENDER_EXTRA = {}       # further files of the last rendering (include files)
RENDER_METAS = []      # (locator, author value) of the entities whose documentation starts with a metadata line (last rendering)


def render_routing(ents, ctx, marks, head=0):
    """Returns (source text, list of (locator, expected words)).  head = 1: the container carries its own documentation
    directly after its opening statement (DocRoute.head) and the file carries documentation before the first unit."""
    lines, expect = [], []
    metas = RENDER_METAS
    metas.clear()
    RENDER_EXTRA.clear()
    nd = head
    D = marks["docmark"]
    # the container's own documentation also defines a footnote, an abbreviation and a reference-style link: definitions of one
    # comment must not reach the rendered documentation of any other entity
    hd = lambda ind: [f"{ind}!{D} {text(0)} see[^1] and ABBRX and [the manual][refx]", f"{ind}!{D}", f"{ind}!{D} [^1]: wfootx",
                      f"{ind}!{D}", f"{ind}!{D} *[ABBRX]: wabbrx", f"{ind}!{D}", f"{ind}!{D} [refx]: http://example.org/wrefx"] if head else []
    if head:
        lines.append(f"!{D} {text(90)}")
        expect.append((("file", ""), words_of(90)))
    if ctx == "spec":
        lines += ["module m"] + hd("  ") + ["  implicit none"]
        if head:
            expect.append((("container", "m"), words_of(0)))
        for i, e in enumerate(ents, start=1):
            if e["kind"] == "simple":
                stmt = [f"integer :: v{i}", f"real, parameter :: v{i} = 1.0", f"character(len=3), dimension(2) :: v{i}"][i % 3]
                body, closer = [], []
                loc = ("var", f"v{i}")
            else:
                form = i % 3
                if form == 0:
                    stmt, closer, loc = f"type :: t{i}", [f"    integer :: comp{i}", f"  end type t{i}"], ("type", f"t{i}")
                elif form == 1:
                    stmt, closer, loc = f"interface g{i}", [f"    module procedure impl{i}", f"  end interface g{i}"], ("interface", f"g{i}")
                else:
                    stmt, closer, loc = f"type, public :: t{i}", [f"    real :: comp{i}", f"  end type t{i}"], ("type", f"t{i}")
            lines += entity_lines(i, e, nd, marks, stmt, closer, meta=bool(head))
            expect.append((loc, expected_words(nd, n_docs(e["p"]))))
            if head and e["p"] in META_OK:
                metas.append((loc, meta_value(nd)))
            nd += n_docs(e["p"])
        lines.append("contains")
        for i, e in enumerate(ents, start=1):
            if e["kind"] == "block" and i % 3 == 1:
                lines += [f"  subroutine impl{i}(a)", "    integer :: a", f"  end subroutine impl{i}"]
        lines.append("end module m")
    elif ctx == "procs":
        lines += ["module m"] + hd("  ") + ["  implicit none", "contains"]
        if head:
            expect.append((("container", "m"), words_of(0)))
        for i, e in enumerate(ents, start=1):
            if i % 2:
                stmt, closer, loc = f"subroutine s{i}(a)", ["    integer :: a", f"  end subroutine s{i}"], ("proc", f"s{i}")
            else:
                stmt, closer, loc = f"function s{i}(a) result(r)", ["    integer :: a, r", "    r = a", f"  end function s{i}"], ("proc", f"s{i}")
            lines += entity_lines(i, e, nd, marks, stmt, closer, meta=bool(head))
            expect.append((loc, expected_words(nd, n_docs(e["p"]))))
            if head and e["p"] in META_OK:
                metas.append((loc, meta_value(nd)))
            nd += n_docs(e["p"])
        lines.append("end module m")
    elif ctx == "type":
        lines += ["module m", "  implicit none", "  type :: holder"] + hd("    ")
        if head:
            expect.append((("container", "holder"), words_of(0)))
        for i, e in enumerate(ents, start=1):
            stmt = f"integer :: c{i}" if i % 2 else f"real, allocatable :: c{i}(:)"
            lines += entity_lines(i, e, nd, marks, stmt, [], ind="    ", meta=bool(head))
            expect.append((("component", f"c{i}"), expected_words(nd, n_docs(e["p"]))))
            if head and e["p"] in META_OK:
                metas.append((("component", f"c{i}"), meta_value(nd)))
            nd += n_docs(e["p"])
        lines += ["  end type holder", "end module m"]
    elif ctx == "include":
        # the declarations stand in an INCLUDEd file: the nested reader uses the same markers
        lines += ["module m"] + hd("  ") + ["  implicit none", "  include 'decls.inc'", "end module m"]
        if head:
            expect.append((("container", "m"), words_of(0)))
        inc = []
        for i, e in enumerate(ents, start=1):
            stmt = [f"integer :: v{i}", f"real, parameter :: v{i} = 1.0", f"character(len=3), dimension(2) :: v{i}"][i % 3]
            inc += entity_lines(i, e, nd, marks, stmt, [], meta=bool(head))
            expect.append((("var", f"v{i}"), expected_words(nd, n_docs(e["p"]))))
            if head and e["p"] in META_OK:
                metas.append((("var", f"v{i}"), meta_value(nd)))
            nd += n_docs(e["p"])
        RENDER_EXTRA["decls.inc"] = "\n".join(inc) + "\n"
    elif ctx == "args":
        lines += ["subroutine outer(" + ", ".join(f"a{i}" for i in range(1, len(ents) + 1)) + ")"] + hd("  ")
        if head:
            expect.append((("container", "outer"), words_of(0)))
        for i, e in enumerate(ents, start=1):
            stmt = f"integer, intent(in) :: a{i}" if i % 2 else f"real, intent(inout) :: a{i}"
            lines += entity_lines(i, e, nd, marks, stmt, [], meta=bool(head))
            expect.append((("arg", f"a{i}"), expected_words(nd, n_docs(e["p"]))))
            if head and e["p"] in META_OK:
                metas.append((("arg", f"a{i}"), meta_value(nd)))
            nd += n_docs(e["p"])
        lines += ["end subroutine outer"]
    return "\n".join(lines) + "\n", expect


def doc_words(entity):
    return re.findall(r"w\d\dx[qr]?", " ".join(entity.doc_list))


def find(project, loc):
    kind, name = loc
    if kind == "file":
        return project.files[0], None
    if kind == "container":
        if name == "outer":
            return project.procedures[0], None
        if name == "holder":
            return project.modules[0].types[0], None
        return project.modules[0], None
    if kind == "arg":
        outer = project.procedures[0]
        return next((a for a in outer.args if a.name == name), None), outer
    m = project.modules[0]
    if kind == "var":
        return next((v for v in m.variables if v.name == name), None), m
    if kind == "type":
        return next((t for t in m.types if t.name == name), None), m
    if kind == "interface":
        return next((t for t in m.interfaces if t.name == name), None), m
    if kind == "proc":
        return next((t for t in m.routines if t.name == name), None), m
    if kind == "component":
        h = m.types[0]
        return next((v for v in h.variables if v.name == name), None), h
    return None, m


def evaluate_routing(case):
    ents = case["ents"]
    out = []
    for ctx in case["ctxs"]:
        if ctx == "procs" and not all(e["kind"] == "block" for e in ents):
            continue
        if ctx in ("type", "args", "include") and not all(e["kind"] == "simple" for e in ents):
            continue
        for ms in case["marksets"]:
            marks = MARKSETS[ms]
            text, expect = render_routing(ents, ctx, marks, case.get("head", 0))
            head = case.get("head", 0)
            bad = []
            try:
                p = fordrun.project(dict({"case.f90": text}, **RENDER_EXTRA), **marks)
                if not p.files:
                    bad.append("file rejected by FORD")
                else:
                    containers = set()
                    for loc, words in expect:
                        ent, cont = find(p, loc)
                        if cont is not None:
                            containers.add(id(cont))
                        if ent is None:
                            bad.append(f"{loc} not reported")
                            continue
                        got = doc_words(ent)
                        if got != words:
                            bad.append(f"{loc[0]} {loc[1]}: documentation words {got}, its comments hold {words}")
                    if head and ctx == "spec":
                        # rendered documentation: what the module's comment defines stays in the module's documentation
                        from ford._markdown import MetaMarkdown
                        md = MetaMarkdown(project=p)
                        p.markdown(md)
                        for loc, words in expect:
                            if loc[0] in ("file", "container"):
                                continue
                            ent, _ = find(p, loc)
                            html = getattr(ent, "doc", "") or ""
                            leaked = [w for w in ("wfootx", "wabbrx", "wrefx") if w in html]
                            if leaked:
                                bad.append(f"{loc[0]} {loc[1]}: its rendered documentation holds {leaked}, which only the module's comment defines")
                            missing = [w for w in words if w not in html]
                            if missing:
                                bad.append(f"{loc[0]} {loc[1]}: words {missing} of its comment are not in its rendered documentation")
                    # a leading metadata line sets the entity's metadata and is not part of its documentation text
                    for loc, val in list(RENDER_METAS):
                        ent, _ = find(p, loc)
                        if ent is None:
                            continue
                        if getattr(ent.meta, "author", None) != val:
                            bad.append(f"{loc[0]} {loc[1]}: metadata line 'author: {val}' gave meta.author = {getattr(ent.meta, 'author', None)!r}")
                        if val in " ".join(ent.doc_list):
                            bad.append(f"{loc[0]} {loc[1]}: the metadata line is shown as documentation text: {ent.doc_list[:2]!r}")
                    # nothing may leak into the container (module / type / procedure itself has no comment)
                    top = p.modules[0] if p.modules else p.procedures[0]
                    own_top = words_of(0) if (head and ctx != "type") else []
                    if doc_words(top) != own_top:
                        bad.append(f"container {top.name} holds {doc_words(top)}, its own comments hold {own_top}")
                    own_holder = words_of(0) if head else []
                    if p.modules and p.modules[0].types and ctx == "type" and doc_words(p.modules[0].types[0]) != own_holder:
                        bad.append(f"type holder holds {doc_words(p.modules[0].types[0])}, its own comments hold {own_holder}")
                    own_file = words_of(90) if head else []
                    if doc_words(p.files[0]) != own_file:
                        bad.append(f"source file holds {doc_words(p.files[0])}, its own comments hold {own_file}")
            except Exception as ex:
                bad.append(f"FORD failed: {type(ex).__name__}: {ex}")
            out.append({"ctx": ctx, "marks": ms, "bad": bad, "text": text if bad else None})
    return out


# ---------------------------------------------------------------- bodies: rendering
def render_line(l):
    s = "    " * l["ind"]
    parts = []
    if l["start"]:
        parts.append("@" + l["start"])
    parts += [f"b{w:02d}z" for w in l["mid"]]
    if l["end"]:
        parts.append("@end" + l["end"])
    parts += [f"b{w:02d}z" for w in l["post"]]
    return s + " ".join(parts)


def model_line(o):
    s = "    " * o["lvl"]
    if o["note"]:
        return s + "@note " + o["note"].capitalize()
    return (s + " ".join(f"b{w:02d}z" for w in o["words"])) if o["words"] else ""


def evaluate_body(case):
    from ford.md_admonition import AdmonitionPreprocessor
    from ford._markdown import MetaMarkdown
    body, res = case["body"], case["result"]
    lines = [render_line(l) for l in body]
    bad = []
    words = [f"b{w:02d}z" for l in body for w in list(l["mid"]) + list(l["post"])]
    # (1) the real pre-processor against the mechanism model, line by line
    try:
        got = AdmonitionPreprocessor().run(list(lines))
        err = ""
    except RuntimeError as ex:
        got, err = None, ("end-without-start" if "without start" in str(ex) else "type-mismatch" if "don't match" in str(ex) else f"other: {ex}")
    if res["err"]:
        if err != res["err"]:
            bad.append(f"pre-processor outcome {err or 'no error'!r}, model says error {res['err']!r}")
    else:
        if err:
            bad.append(f"pre-processor raised {err!r} on a well-formed body")
        else:
            want = [model_line(o) for o in res["lines"]]
            norm = lambda ls: [re.sub(r"\s+$", "", re.sub(r"(?<=\S) +", " ", x)) for x in ls]

            def canon(ls):
                # indentation is compared in units of 4 blanks; blanks inside a line are insignificant
                out = []
                for x in ls:
                    lvl = (len(x) - len(x.lstrip(" "))) // 4
                    out.append(("    " * lvl + " ".join(x.split())) if x.strip() else "")
                return out
            if canon(got) != canon(want):
                bad.append(f"pre-processor lines {got!r} differ from the model's {want!r}")
    # (2) the rendered documentation holds every word exactly once, in order
    if not res["err"]:
        try:
            md = MetaMarkdown()
            htmltext = md.reset().convert("\n".join(lines))
            text = re.sub(r"<[^>]+>", " ", htmltext)
            seen = re.findall(r"b\d\dz", html.unescape(text))
            if seen != words:
                bad.append(f"rendered words {seen}, comment words {words}")
        except Exception as ex:
            bad.append(f"markdown conversion failed: {type(ex).__name__}: {ex}")
    return {"bad": bad, "lines": lines}


def _parse_route(block):
    if '/\\ phase = "done"' not in block:
        return None
    st = tlaval.parse_state(block)
    return {"ents": [dict(e) for e in st["ents"]], "head": int(st["head"])}


def _parse_body(block):
    if '/\\ phase = "done"' not in block:
        return None
    st = tlaval.parse_state(block)
    r = st["result"]
    return {"body": [{"ind": l["ind"], "start": l["start"], "mid": list(l["mid"]), "end": l["end"], "post": list(l["post"])} for l in st["body"]],
            "result": {"err": r["err"], "lines": [{"lvl": o["lvl"], "note": o["note"], "words": list(o["words"])} for o in r["lines"]]}}


def run(tier, seed, ck: Check):
    big = tier == "thorough"
    dev = frozenset({"QuoteLineBlind"})      # open reader deviation (C02-F2); irrelevant for comment routing but keeps the model as built
    scratch = tlc.scratch_dir("verif-c03-")
    try:
        marks = {"DocMark": ("!",), "PreMark": (">",), "DocAlt": ("*",), "PreAlt": ("|",)}
        base = dict(marks, Dev=dev, MaxEnts=3 if big else 2, Placements=frozenset(PLACEMENTS), Seps=frozenset(SEPS))
        mod, cfg = tlc.make_model(scratch, "DocRoute", dict(base, MaxEnts=2), name="MCvac", spec="Spec", invariants=["NeverAlt"])
        if tlc.run(mod, cfg, workers=8, timeout=600).ok:
            raise tlc.TLCFailure("vacuity guard NeverAlt not violated")
        mod, cfg = tlc.make_model(scratch, "DocRoute", base, name="MCroute", spec="Spec", invariants=["EachDocOnItsEntity", "NoLeakToContainer"])
        dump = os.path.join(scratch, "route")
        r = tlc.run(mod, cfg, workers=16, dump=dump, timeout=3000)
        if not r.ok:
            raise tlc.TLCFailure(f"DocRoute: {r.violated} violated by the reader+parser mechanism model")
        routes = [c for c in pool.pmap(_parse_route, tlc.read_dump_blocks(r.dump_file), chunksize=2000) if c]
        os.remove(r.dump_file)
        st, tr = r.distinct, r.generated
        abase = {"MaxLines": 5 if big else 4, "Types": frozenset({"note", "bug"}), "MaxWords": 6}
        mod, cfg = tlc.make_model(scratch, "Admonition", dict(abase, MaxLines=2), name="MCvacA", spec="Spec", invariants=["NeverBox"])
        if tlc.run(mod, cfg, workers=8, timeout=600).ok:
            raise tlc.TLCFailure("vacuity guard NeverBox not violated")
        mod, cfg = tlc.make_model(scratch, "Admonition", abase, name="MCadm", spec="Spec",
                                  invariants=["ErrorsReported", "WordsPreservedInOrder", "StartsBecomeNotes"])
        dump = os.path.join(scratch, "adm")
        r2 = tlc.run(mod, cfg, workers=16, dump=dump, timeout=3000)
        if not r2.ok:
            raise tlc.TLCFailure(f"Admonition: {r2.violated} violated by the rewriting mechanism model")
        bodies = [c for c in pool.pmap(_parse_body, tlc.read_dump_blocks(r2.dump_file), chunksize=2000) if c]
        os.remove(r2.dump_file)
        ck.coverage["states"] = st + r2.distinct
        ck.coverage["transitions"] = tr + r2.generated
    finally:
        shutil.rmtree(scratch, ignore_errors=True)
    if not big:
        routes = [c for c in routes if zlib.crc32(json.dumps([c["ents"], c["head"]], sort_keys=True).encode()) % 8 == seed % 8]
        bodies = [c for c in bodies if zlib.crc32(json.dumps(c["body"], sort_keys=True).encode()) % 6 == seed % 6]
    elif len(routes) > 150000:
        routes = [c for c in routes if zlib.crc32(json.dumps(c["ents"], sort_keys=True).encode()) % (len(routes) // 150000 + 1) == 0]
    for c in routes:
        h = zlib.crc32(json.dumps(c["ents"], sort_keys=True).encode())
        c["ctxs"] = ("spec", "procs", "type", "args", "include")
        c["marksets"] = ("default", "swapped") if big else (("default", "swapped")[h % 2],)
    ck.coverage["routing_cases"] = len(routes)
    ck.coverage["body_cases"] = len(bodies)
    for c, rs in zip(routes, pool.pmap(evaluate_routing, routes, chunksize=50)):
        if any(e["p"] != "none" for e in c["ents"]) and len(c["ents"]) >= 2:
            ck.nontrivial_case("r" + json.dumps([c["ents"], c["head"]], sort_keys=True))
        for r_ in rs:
            ck.count()
            for b in r_["bad"][:2]:
                ck.violation("routing", {"ents": c["ents"], "head": c["head"], "ctx": r_["ctx"], "marks": r_["marks"]}, detail=f"[{r_['ctx']}/{r_['marks']}] {b}", extra={"source": r_["text"]})
    for c, r_ in zip(bodies, pool.pmap(evaluate_body, bodies, chunksize=200)):
        ck.count()
        if any(l["start"] or l["end"] for l in c["body"]):
            ck.nontrivial_case("b" + json.dumps(c["body"], sort_keys=True))
        for b in r_["bad"][:2]:
            ck.violation("body", {"body": c["body"], "model": c["result"]}, detail=f"{r_['lines']!r}: {b}")
    ck.coverage["traces_validated_against_impl"] = len(bodies)
    if routes:
        ck.sample({"routing_case": routes[len(routes) // 2]["ents"], "source": render_routing(routes[len(routes) // 2]["ents"], "spec", MARKSETS["default"], routes[len(routes) // 2]["head"])[0]})
    if bodies:
        ck.sample({"body_case": [render_line(l) for l in bodies[len(bodies) // 2]["body"]], "model_output": [model_line(o) for o in bodies[len(bodies) // 2]["result"]["lines"]]})
    ck.assumptions += [
        "comments are placed only where the marker rules designate an entity (after a declaration / before the next one); an ordinary comment directly after an alternate-marker block belongs to the block and is not used as a separator there",
        "note markers stand at the start of a line (optionally indented); end markers may stand anywhere in a line; at most one start and one end marker per line",
        "tracer words contain no ':' (a one-line comment of the form 'key: text' is metadata by design)",
        "the rendered text is obtained by stripping tags from MetaMarkdown's HTML; 'words in order' ignores which box a word ends up in",
    ]


def replay_file(path, ck):
    rec = json.load(open(path))
    c = rec["case"]
    ck.count(); ck.nontrivial_case("r1"); ck.nontrivial_case("r2")
    if rec["kind"] == "routing":
        rs = evaluate_routing({"ents": c["ents"], "head": c.get("head", 0), "ctxs": (c["ctx"],), "marksets": (c["marks"],)})
        ck.sample({"case": c, "result": rs})
        for r_ in rs:
            for b in r_["bad"][:2]:
                ck.violation("routing", c, detail=b, extra={"source": r_["text"]})
    else:
        r_ = evaluate_body({"body": c["body"], "result": c["model"]})
        ck.sample({"case": c, "result": r_})
        for b in r_["bad"][:2]:
            ck.violation("body", c, detail=b)


def main():
    a = common.args()
    ck = Check(PROP, "model_checking", a.tier, a.seed)
    try:
        if a.replay:
            replay_file(a.replay, ck)
        else:
            run(a.tier, a.seed, ck)
    except tlc.TLCFailure as e:
        return machinery_failure(PROP, str(e))
    return ck.finish(rule="routing cases = unit bodies of spec/DocRoute.tla (<=2-3 entities x {simple, block} x 10 comment placements x gap x 4 separators) "
                          "rendered in 4 contexts (module specification part, module procedures, type components, dummy arguments) x 2 marker sets; "
                          "body cases = line sequences of spec/Admonition.tla (<=4-5 lines over 20 line shapes); non-trivial iff >=2 entities with a "
                          "comment / a body with a note marker; distinct by abstract case", exhaustive=False)


if __name__ == "__main__":
    sys.exit(main())
