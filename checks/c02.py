#!/venv/bin/python
"""C02 - statement and doc extraction depends only on Fortran's lexical rules.

Spec: spec/Lex.tla (rules = oracle), spec/ReaderImpl.tla (as-built mechanism),
spec/FreeForm.tla (generator of logical content x layouts), spec/FreeForm_Trace.tla.
"""
from __future__ import annotations
import glob
import json
import os
import random
import re
import shutil
import sys

sys.path.insert(0, os.path.dirname(os.path.abspath(__file__)))
import common  # noqa: E402
from vlib import tlc, tlaval, pool, readerbind as rb  # noqa: E402
from vlib.verdict import Check, machinery_failure  # noqa: E402

PROP = "C02"
MARKS = rb.DEFAULT_MARKS
AS_BUILT_DEV = ("QuoteLineBlind",)      # open deviations of the tree (see known_findings.json)
FINDING_OF_DEV = {"QuoteLineBlind": "C02-F2"}


def consts(**kw):
    c = {"DocMark": tuple(MARKS["doc"]), "PreMark": tuple(MARKS["pre"]), "DocAlt": tuple(MARKS["docalt"]),
         "PreAlt": tuple(MARKS["prealt"]), "Dev": frozenset(), "MaxStmts": 2, "MaxToks": 3, "MaxLit": 2,
         "MaxCost": 2, "Extras": frozenset()}
    c.update(kw)
    return c


# ---------------------------------------------------------------- canonical form (image of Lex.Canon)
def canon_stmt(s: str) -> str:
    out = []
    q = ""
    pending = False
    for c in s:
        if q:
            out.append(c)
            if c == q:
                q = ""
            continue
        if c in " \t":
            pending = bool(out)
            continue
        if pending and out and (out[-1].isalnum() or out[-1] == "_") and (c.isalnum() or c == "_"):
            out.append(" ")
        pending = False
        out.append(c)
        if c in "'\"":
            q = c
    return "".join(out)


def observed_items(yields, docmark):
    items = []
    for y in yields:
        if y.startswith("!" + docmark):
            t = y[1 + len(docmark):].rstrip(" \t")
            if t.strip(" \t"):
                items.append(("d", t))
        else:
            items.append(("s", canon_stmt(y)))
    return items


def expected_items(logical):
    out = []
    for it in logical:
        t = "".join(it["t"])
        if it["k"] == "d":
            if t.strip(" \t"):
                out.append(("d", t.rstrip(" \t")))
        else:
            out.append(("s", t))
    return out


# ---------------------------------------------------------------- cases out of TLC
_COMPLETE = re.compile(r'/\\ mode = "bol"')
_NOPD = re.compile(r"/\\ pdocs = <<>>")


def _parse_block(block):
    if not (_COMPLETE.search(block) and _NOPD.search(block)):
        return None
    st = tlaval.parse_state(block)
    return {"lines": ["".join(l) for l in st["lines"]], "logical": [{"k": i["k"], "t": "".join(i["t"])} for i in st["logical"]],
            "cost": st["cost"]}


def cases_from_dump(path):
    blocks = tlc.read_dump_blocks(path)
    return [c for c in pool.pmap(_parse_block, blocks, chunksize=500) if c]


_SIMSTATE = re.compile(r"^STATE_\d+ ==\s*$", re.M)


def _parse_simfile(path):
    with open(path) as f:
        text = f.read()
    parts = _SIMSTATE.split(text)[1:]
    best = None
    for p in parts:
        p = p.split("\n\n\\*")[0]
        p = p.split("\n====")[0]
        c = _parse_block(p.strip() + "\n")
        if c:
            best = c
    return best


def cases_from_sim(d):
    files = sorted(glob.glob(os.path.join(d, "*")))
    return [c for c in pool.pmap(_parse_simfile, files, chunksize=100) if c]


# ---------------------------------------------------------------- replay into the real reader
def replay_case(case):
    text = "\n".join(case["lines"]) + "\n"
    fed, yields, err = rb.run_reader_text(text, MARKS)
    exp = expected_items(case["logical"])
    obs = observed_items(yields, MARKS["doc"])
    ok = (not err) and obs == exp
    return ok, yields, err


def nontrivial(case):
    t = "\n".join(case["lines"])
    return ("&" in t) or (";" in t) or ("'" in t) or ('"' in t)


def run(tier, seed, ck: Check):
    big = tier == "thorough"
    scratch = tlc.scratch_dir("verif-c02-")
    try:
        # ---- 1. design-level model checking: rules recover the logical content from every layout,
        #         and the mechanism without deviations refines the rules
        mc_cost = 3 if big else 2
        mod, cfg = tlc.make_model(scratch, "FreeForm", consts(MaxCost=mc_cost, Extras=frozenset({"litgap"})), name="MCdesign",
                                  spec="Spec", invariants=["LayoutInvariant", "ImplRefines", "ImplNoError"])
        r = tlc.run(mod, cfg, workers=16, timeout=3000)
        if not r.ok:
            raise tlc.TLCFailure(f"design-level invariant {r.violated} violated in FreeForm (spec inconsistency)\n" + r.output[-1500:])
        ck.coverage["states"] = r.distinct
        ck.coverage["transitions"] = r.generated
        ck.coverage["mc_design"] = {"MaxCost": mc_cost, "MaxStmts": 2, "MaxToks": 3, "MaxLit": 2, "distinct": r.distinct,
                                    "depth": r.depth, "invariants": ["LayoutInvariant", "ImplRefines(Dev={})", "ImplNoError"]}
        # vacuity guard: the generator does reach two-statement files
        mod, cfg = tlc.make_model(scratch, "FreeForm", consts(MaxCost=1), name="MCvac", spec="Spec", invariants=["NeverTwoStmts"])
        rv = tlc.run(mod, cfg, workers=8, timeout=600)
        if rv.ok:
            raise tlc.TLCFailure("vacuity guard NeverTwoStmts was not violated: generator degenerate")

        # ---- 2. exhaustive small-scope generation, replayed
        gen_cost = 2 if big else 1
        mod, cfg = tlc.make_model(scratch, "FreeForm", consts(MaxCost=gen_cost, Extras=frozenset()), name="MCgen", spec="Spec")
        dump = os.path.join(scratch, "gen")
        rg = tlc.run(mod, cfg, workers=16, dump=dump, timeout=3000)
        cases = cases_from_dump(rg.dump_file)
        os.remove(rg.dump_file)
        ck.coverage["gen"] = {"MaxCost": gen_cost, "states": rg.distinct, "complete_cases": len(cases)}

        # ---- 3. random deep cases by simulation of the same spec
        simdir = os.path.join(scratch, "sim")
        os.mkdir(simdir)
        mod, cfg = tlc.make_model(scratch, "FreeForm", consts(MaxCost=7, MaxStmts=3, MaxToks=4, MaxLit=3, Extras=frozenset()),
                                  name="MCsim", spec="Spec", invariants=["LayoutInvariant"])
        per_worker = 6000 if big else 700
        rs = tlc.run(mod, cfg, workers=16, simulate=f"file={simdir}/b,num={per_worker}", depth=30, seed=seed + 1, timeout=3000)
        if not rs.ok:
            raise tlc.TLCFailure(f"LayoutInvariant violated in simulation\n" + rs.output[-1500:])
        sim_cases = cases_from_sim(simdir)
        shutil.rmtree(simdir, ignore_errors=True)
        ck.coverage["sim"] = {"behaviours": 16 * per_worker, "cases": len(sim_cases), "seed": seed + 1}

        allcases = cases + sim_cases
        seen = set()
        uniq = []
        for c in allcases:
            k = "\n".join(c["lines"])
            if k not in seen:
                seen.add(k)
                uniq.append(c)
        results = pool.pmap(replay_case, uniq, chunksize=200)
        bad = []
        for c, (ok, yields, err) in zip(uniq, results):
            ck.count()
            if nontrivial(c):
                ck.nontrivial_case("\n".join(c["lines"]))
            if not ok:
                bad.append((c, yields, err))
        for c in uniq[:: max(1, len(uniq) // 5)][:5]:
            ck.sample({"lines": c["lines"], "expected": expected_items(c["logical"])})

        # ---- 4. direction 2: recorded executions validated by TLC against rules and mechanism model
        recs = []
        meta = {}
        # (a) the repository's own sources
        for p in sorted(glob.glob(common.REPO + "/example/src/*.f90") + glob.glob(common.REPO + "/test_data/**/*.f90", recursive=True)):
            fed, ys, err = rb.run_reader(p, MARKS)
            if rb.traceable(fed, ys) or err:
                continue
            tid = "file:" + os.path.relpath(p, common.REPO)
            recs.append(rb.trace_record(tid, fed, ys, err))
            meta[tid] = {"lines": [l.rstrip("\n") for l in fed], "yields": ys}
        # (b) a seeded sample of the generated cases (keeps the Python canonical form honest)
        rng = random.Random(seed)
        sample = rng.sample(range(len(uniq)), min(len(uniq), 4000 if big else 800))
        for i in sample:
            ok, ys, err = results[i]
            tid = f"gen:{i}"
            recs.append(rb.trace_record(tid, [l + "\n" for l in uniq[i]["lines"]], ys, err if err in dict(rb.ERRMAP).values() else ("other" if err else "")))
            meta[tid] = {"lines": uniq[i]["lines"], "yields": ys, "pyok": ok}
        # (c) every mismatch found by the replay (attribution)
        for j, (c, ys, err) in enumerate(bad):
            tid = f"bad:{j}"
            recs.append(rb.trace_record(tid, [l + "\n" for l in c["lines"]], ys, err if err in dict(rb.ERRMAP).values() else ("other" if err else "")))
            meta[tid] = {"lines": c["lines"], "yields": ys, "err": err, "expected": expected_items(c["logical"]), "pyok": False}
        # (d) every free-form reader run of the repository's own test-suite (recorded by a pytest plugin of the harness)
        suite, summary = rb.suite_records(common.REPO)
        ck.coverage["suite_run"] = summary
        skipped = {}
        suite_groups = {}
        for j, x in enumerate(suite):
            why = "fixed form / preprocessed" if (x["fixed"] or x["preprocessed"]) else ("reader abandoned by the parser" if not x["done"] else rb.traceable(x["fed"], x["yields"]))
            if why is None and x["err"]:
                why = "reader raised"
            if why:
                skipped[why] = skipped.get(why, 0) + 1
                continue
            mk = json.dumps(x["marks"], sort_keys=True)
            tid = f"suite:{j}"
            suite_groups.setdefault(mk, []).append(rb.trace_record(tid, x["fed"], x["yields"], ""))
            meta[tid] = {"lines": [l.rstrip("\n") for l in x["fed"]], "yields": x["yields"], "file": x["file"]}
        ck.coverage["suite_reader_runs"] = {"recorded": len(suite), "validated": sum(len(v) for v in suite_groups.values()), "skipped": skipped}
        verdicts = []
        for mk, group in suite_groups.items():
            verdicts.extend(rb.validate_traces(group, json.loads(mk), AS_BUILT_DEV)[0])
        if len(verdicts) < 50:
            raise tlc.TLCFailure(f"only {len(verdicts)} reader runs of the repository's test-suite could be validated ({skipped})")
        B = 1500
        batches = [recs[i:i + B] for i in range(0, len(recs), B)]
        for vs in pool_threads(lambda b: rb.validate_traces(b, MARKS, AS_BUILT_DEV)[0], batches):
            verdicts.extend(vs)
        ck.coverage["traces_validated_against_impl"] = len(verdicts)
        drift = 0
        for v in verdicts:
            tid = v["id"]
            m = meta[tid]
            ref_ok = v["ref"] == 0
            impl_ok = v["impl"] == 0
            if not impl_ok:
                drift += 1
            if tid.startswith("gen:") and ref_ok != m["pyok"]:
                raise tlc.TLCFailure(f"Python canonical form disagrees with Lex.Canon on {m['lines']!r}")
            if ref_ok:
                continue
            case = {"lines": m["lines"]}
            detail = (f"item {v['ref']}: reader gave {_show(v['obsAt'])} but the lexical rules give {_show(v['refAt'])}; "
                      f"lines={m['lines']!r}")
            if impl_ok and AS_BUILT_DEV:
                fid = FINDING_OF_DEV[AS_BUILT_DEV[0]]
                if ck.known_finding(fid):
                    continue
            if tid.startswith(("file:", "suite:")):
                ck.count()
            ck.violation("reader-vs-lexical-rules", case, expected=m.get("expected"), observed=m["yields"], detail=detail)
        ck.coverage["model_drift_traces"] = drift
        # ---- 5. the trace spec is bound to what was recorded: one corrupted field -> that trace rejected
        vd = {v["id"]: v for v in verdicts}
        good = [r for r in recs if vd[r["id"]]["ref"] == 0 and vd[r["id"]]["impl"] == 0 and r["yields"]]
        pick = good[:: max(1, len(good) // 30)][:30]
        corrupted = []
        for k_, r in enumerate(pick):
            r2 = json.loads(json.dumps(r))
            r2["id"] = f"corrupt:{k_}"
            if k_ % 3 == 0:
                r2["yields"] = r2["yields"][:-1]                       # one yielded item lost
            elif k_ % 3 == 1:
                r2["yields"][0] = ["q"] + r2["yields"][0]              # one character more in a yielded item
            else:
                r2["yields"] = r2["yields"] + [r2["yields"][-1]]       # one item yielded twice
            corrupted.append(r2)
        if corrupted:
            cv, _ = rb.validate_traces(corrupted, MARKS, AS_BUILT_DEV)
            accepted = [v["id"] for v in cv if v["ref"] == 0 or v["impl"] == 0]
            if accepted:
                raise tlc.TLCFailure(f"trace spec accepted corrupted records {accepted}: FreeForm_Trace does not bind")
            ck.coverage["corrupted_traces_rejected"] = len(cv)
        ck.assumptions += [
            "generated files are valid free-form Fortran: no line holds a lone '&', character context is continued only with a leading '&', pre-docs stand on their own lines and are not combined with ';'",
            "empty documentation lines carry no text and are ignored on both sides",
            "comparison is on canonical statements (blanks outside literals only separate names), literal bodies verbatim (Lex.Canon)",
            "TLC, CPython re, the TLA+ value parser and the 30-line Python image of Lex.Canon (cross-checked against TLC on a sample every run) are trusted",
        ]
    finally:
        shutil.rmtree(scratch, ignore_errors=True)


def _show(item):
    if not item:
        return "<nothing>"
    return f"{item['k']}:{''.join(item['t'])!r}"


def pool_threads(fn, items, n=8):
    from concurrent.futures import ThreadPoolExecutor
    if not items:
        return []
    with ThreadPoolExecutor(max_workers=n) as ex:
        return list(ex.map(fn, items))


def replay_file(path, ck: Check):
    import json
    rec = json.load(open(path))
    lines = rec["case"]["lines"]
    fed, ys, err = rb.run_reader_text("\n".join(lines) + "\n", MARKS)
    vs, _ = rb.validate_traces([rb.trace_record("replay", [l + "\n" for l in lines], ys, err)], MARKS, AS_BUILT_DEV)
    v = vs[0]
    ck.count()
    ck.nontrivial_case("replay")
    ck.nontrivial_case("replay2")
    ck.sample({"lines": lines, "yields": ys})
    if v["ref"] != 0:
        ck.violation("reader-vs-lexical-rules", {"lines": lines}, observed=ys,
                     detail=f"item {v['ref']}: reader gave {_show(v['obsAt'])} but the lexical rules give {_show(v['refAt'])}")


def main():
    a = common.args()
    ck = Check(PROP, "model_checking", a.tier, a.seed)
    try:
        if a.replay:
            replay_file(a.replay, ck)
        else:
            run(a.tier, a.seed, ck)
    except tlc.TLCFailure as e:
        return machinery_failure(PROP, str(e))
    return ck.finish(
        rule="cases = complete files reachable in spec/FreeForm.tla (exhaustive up to MaxCost features, plus seeded "
             "simulation up to cost 7) + the repository's own free-form sources; a case is non-trivial iff its text "
             "contains a continuation, a ';' or a character literal; distinct by file text",
        exhaustive=False)


if __name__ == "__main__":
    sys.exit(main())
