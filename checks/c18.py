#!/venv/bin/python
"""C18 - rendered declarations say what the source says, and stay inert text.

Spec: spec/LiteralMask.tla (cut literals out / put them back: EveryLiteralReinsertedOnceInPlace).
Replay: declarations carrying literal contents over an alphabet of HTML- and Markdown-significant
characters (and digit-only literals that look like the mask's placeholders) in every displayed position
(initial value, second entity of a statement, array constructor, component default, bind name, kind /
length / dimension expressions with relational operators) are built end to end; what FORD stores
(API) and what the generated pages show (text of the declaration row, element structure of the row)
must be textually the source.
"""
from __future__ import annotations
import html
import itertools
import json
import os
import re
import shutil
import sys

sys.path.insert(0, os.path.dirname(os.path.abspath(__file__)))
import common  # noqa: E402
from vlib import tlc, pool, fordrun, site  # noqa: E402
from vlib.verdict import Check, machinery_failure  # noqa: E402

PROP = "C18"
ATOMS = ["a", ",b", "<", ">", "&", '"', "'", "\\", "  ", "*", "_", "`", "0", "1", "<b>", "&amp;", "[[m]]", "Ab", "\\\\\\"]


def contents(maxlen):
    out = [""]
    for n in range(1, maxlen + 1):
        for t in itertools.product(ATOMS, repeat=n):
            out.append("".join(t))
    return out


def literal(content, q):
    return q + content.replace(q, q + q) + q


def build(cases):
    """cases: list of (k, content, quote).  One project holding every position for every literal."""
    spec, comps, procs, nlvars = [], [], [], []
    for k, content, q in cases:
        lit = literal(content, q)
        spec.append(f"  character(len=*), parameter :: pa{k} = {lit}")
        spec.append(f"  character(len=40) :: fi{k} = 'first', pb{k} = {lit}")
        spec.append(f"  character(len=40), parameter :: pc{k}(2) = [ 'x', {lit} ]")
        spec.append(f"  character(len=40), parameter :: pd{k}(2) = [ {lit}, 'y' ]")
        spec.append(f"  character(len=*), parameter :: pe{k} = {lit} // 'z'")
        comps.append(f"    character(len=40) :: co{k} = {lit}")
        # the same local declaration in every procedure, differing only in the literal of its kind selector
        procs.append(f"  subroutine bn{k}() bind(c, name={lit})\n  end subroutine bn{k}")
        procs.append(f"  subroutine kq{k}()\n    character(kind=selected_char_kind({lit}), len=10) :: kc\n  end subroutine kq{k}")
        nlvars.append(f"    character(len=40) :: nv{k} = {lit}")
    src = ("module m\n  implicit none\n" + "\n".join(spec) + "\n"
           "  integer, parameter :: rel1 = merge(2, 3, 1 < 2)\n"
           "  integer, dimension(merge(2, 3, 1 < 2)) :: rel2\n"
           "  real :: rel3(merge(2, 3, 1 < 2))\n"
           "  character(len=count([1 < 2])) :: rel4\n"
           "  character :: banner*(12)\n"
           "  integer, parameter :: nn = 8\n"
           "  character(len=nn/2) :: rel6\n"
           "  logical, parameter :: rel7 = 1 == 1\n"
           "  real :: rel8(nn/2)\n"
           "  logical, parameter :: rel9 = nn >= 2 .and. nn /= 3\n"
           # a literal continued across two lines, with a blank in front of the break and one behind it
           "  character(len=60) :: contlit = \"usage: convert [options] &\n      & <input> <output>\"\n"
           "  integer(kind=merge(4, 8, 1 < 2)) :: rel5\n"
           "  type :: holder\n" + "\n".join(comps) + "\n  end type holder\n"
           "contains\n" + "\n".join(procs) + "\n"
           # a namelist of a procedure: its page and the panel on the procedure's page show the variables with their defaults
           "  subroutine nlproc()\n" + "\n".join(nlvars) + "\n    namelist /grp/ " + ", ".join(f"nv{k}" for k, _, _ in cases) + "\n  end subroutine nlproc\n"
           # a character length written after the name, in parentheses
           "  function starlen(line, tag) result(res)\n    character line*(*)\n    character :: tag*(3)\n    character res*(8)\n    res = line // tag\n  end function starlen\n"
           # attributes given by separate statements (F77 style) are part of what is displayed for a dummy argument
           "  subroutine attrargs(a, n, w)\n    real a\n    integer n\n    real w\n    intent(inout) a\n    dimension a(n, n)\n    intent(in) :: n\n    optional :: w\n  end subroutine attrargs\n"
           "  function fr(a) result(r)\n    integer, intent(in) :: a(merge(2, 3, 1 < 2))\n    integer :: r(merge(2, 3, 1 < 2))\n    r = a\n  end function fr\n"
           "  function fdiv(k) result(r)\n    integer :: k\n    real, dimension(nn/2) :: r\n    r = k\n  end function fdiv\n"
           "end module m\n")
    return src


def norm(s):
    return re.sub(r"\s+", " ", s.replace("\xa0", " ")).strip()


def squash(s):
    return re.sub(r"\s+", "", s.replace("\xa0", " "))


def evaluate(job):
    cases = job["cases"]
    src = build(cases)
    out = []
    with fordrun.tempdir("verif-c18-") as d:
        fordrun.write_files(d, {"src/m.f90": src})
        ok, log, err = site.run_inproc(d, {"display": ["public", "private", "protected"], "search": False, "incl_src": False, "lower": bool(job.get("lower")), "proc_internals": True})
        if not ok:
            return [{"k": None, "bad": f"FORD failed: {type(err).__name__}: {err}"}]
        project = site.CAPTURED["project"]
        m = project.modules[0]
        byname = {v.name: v for v in m.variables}
        holder = m.types[0]
        comp = {v.name: v for v in holder.variables}
        subs = {s.name: s for s in m.subroutines}
        from bs4 import BeautifulSoup
        pages = {}
        for rel in ("module/m.html", "type/holder.html"):
            pages[rel] = BeautifulSoup(open(os.path.join(d, "doc", rel), "rb").read(), "html.parser")
        procpages = {}

        def row_of(soup, var):
            a = soup.find(id=var.anchor)
            return a.find_parent("tr") if a is not None else None

        ref_row = row_of(pages["module/m.html"], byname[f"pa{cases[0][0]}"])
        ref_cells = len(ref_row.find_all("td")) if ref_row is not None else None
        for k, content, q in cases:
            lit = literal(content, q)
            checks = [(byname.get(f"pa{k}"), lit, "module/m.html", "initial value"),
                      (byname.get(f"pb{k}"), lit, "module/m.html", "second entity of a statement"),
                      (byname.get(f"pc{k}"), f"['x', {lit}]", "module/m.html", "array constructor"),
                      (byname.get(f"pd{k}"), f"[{lit}, 'y']", "module/m.html", "array constructor, literal first"),
                      (byname.get(f"pe{k}"), f"{lit}//'z'", "module/m.html", "concatenation"),
                      (comp.get(f"co{k}"), lit, "type/holder.html", "component default")]
            for var, want, rel, what in checks:
                if var is None:
                    out.append({"k": k, "bad": f"{what}: entity for literal {lit!r} not reported"})
                    continue
                # API level: what FORD stores (blanks outside the literal are FORD's to choose)
                got = (var.initial or "")
                if squash(got) != squash(want) or (lit.replace("  ", " \xa0").replace("\xa0 ", "\xa0\xa0") not in got.replace("  ", " \xa0").replace("\xa0 ", "\xa0\xa0") and norm(lit) not in norm(got)):
                    out.append({"k": k, "bad": f"{what}: source {want!r}, FORD stores {got!r}"})
                    continue
                # page level
                row = row_of(pages[rel], var)
                if row is None:
                    out.append({"k": k, "bad": f"{what}: no table row for {var.name} on {rel}"})
                    continue
                text = norm(row.get_text(" "))
                if norm(lit) not in text and squash(lit) not in squash(text):
                    out.append({"k": k, "bad": f"{what}: page {rel} shows {text!r}, source literal {lit!r}"})
                cells = row.find_all("td")
                if rel == "module/m.html" and ref_cells is not None and what == "initial value" and len(cells) != ref_cells:
                    out.append({"k": k, "bad": f"{what}: row of {var.name} has {len(cells)} cells, a harmless row has {ref_cells}: {lit!r} changed the page structure"})
                inner = [t.name for c in cells for t in c.find_all(True) if t.name not in ("strong", "span", "a", "p", "small", "em")]
                if inner:
                    out.append({"k": k, "bad": f"{what}: literal {lit!r} produced elements {inner[:4]} inside the row of {var.name}"})
            # bind name in the procedure heading
            s = subs.get(f"bn{k}")
            if s is None:
                out.append({"k": k, "bad": f"bind name: subroutine for {lit!r} not reported"})
                continue
            bind = s.bindC or ""
            if squash(f"c,name={lit}") != squash(bind):
                out.append({"k": k, "bad": f"bind name: source bind(c, name={lit}), FORD stores {bind!r}"})
                continue
            rel = s.get_url()
            soup = BeautifulSoup(open(os.path.join(d, "doc", rel), "rb").read(), "html.parser")
            head = norm(soup.get_text(" "))
            if squash(f"name={lit}") not in squash(head):
                out.append({"k": k, "bad": f"bind name: page {rel} does not show name={lit} literally"})
            sq = subs.get(f"kq{k}")
            kc = {v.name: v for v in sq.variables}.get("kc") if sq is not None else None
            if kc is None:
                out.append({"k": k, "bad": f"kind selector: local variable kc of kq{k} not reported"})
            elif squash(f"selected_char_kind({lit})") != squash(kc.kind or ""):
                out.append({"k": k, "bad": f"kind selector: source kind=selected_char_kind({lit}), FORD stores {kc.kind!r}"})
            else:
                qsoup = BeautifulSoup(open(os.path.join(d, "doc", sq.get_url()), "rb").read(), "html.parser")
                if squash(f"selected_char_kind({lit})") not in squash(qsoup.get_text(" ")) or (qsoup.find_all("b") and "<b>" in content):
                    out.append({"k": k, "tag": "kindpage", "bad": f"kind selector: page {sq.get_url()} does not show selected_char_kind({lit}) as inert text"})
            stray = [t.name for t in soup.find_all(True) if t.name in ("b",) and t.get_text() == ""]
            if soup.find_all("b") and "<b>" in content:
                out.append({"k": k, "bad": f"bind name: literal {lit!r} was interpreted as mark-up on {rel}"})
        # the namelist page and the namelist panel of the procedure show the same defaults, as inert text
        nproc = subs.get("nlproc")
        nl = nproc.namelists[0] if nproc is not None and getattr(nproc, "namelists", None) else None
        if nl is None:
            out.append({"k": None, "bad": "namelist grp of nlproc not reported"})
        else:
            for rel in (nl.get_url(), nproc.get_url()):
                path = os.path.join(d, "doc", rel)
                soup = BeautifulSoup(open(path, "rb").read(), "html.parser") if os.path.exists(path) else None
                if soup is None:
                    out.append({"k": None, "bad": f"page {rel} not written"})
                    continue
                rows = {}
                for tr in soup.find_all("tr"):
                    mm = re.search(r"\bnv(\d+)\b", tr.get_text(" "))
                    if mm and tr.find("td") is not None:
                        rows.setdefault(int(mm.group(1)), tr)
                base_cells = None
                for k, content, q in cases:
                    lit = literal(content, q)
                    tr = rows.get(k)
                    if tr is None:
                        if rel == nl.get_url():
                            out.append({"k": k, "bad": f"namelist page {rel}: no row for nv{k}"})
                        continue
                    text = norm(tr.get_text(" "))
                    if norm(lit) not in text and squash(lit) not in squash(text):
                        out.append({"k": k, "bad": f"namelist variable default: page {rel} shows {text!r}, source literal {lit!r}"})
                    cells = tr.find_all("td")
                    base_cells = base_cells or len(cells)
                    if len(cells) != base_cells:
                        out.append({"k": k, "bad": f"namelist variable default: row of nv{k} on {rel} has {len(cells)} cells, other rows {base_cells}: {lit!r} changed the page structure"})
                    inner = [t.name for c in cells for t in c.find_all(True) if t.name not in ("strong", "span", "a", "p", "small", "em", "code")]
                    if inner:
                        out.append({"k": k, "bad": f"namelist variable default: literal {lit!r} produced elements {inner[:4]} on {rel}"})
        # a character length after the name, in parentheses: name, type and length as declared
        fn = {f.name: f for f in m.functions}.get("starlen")
        if fn is None:
            out.append({"k": None, "bad": "function starlen not reported"})
        else:
            args = {a.name: a for a in fn.args if not isinstance(a, str)}
            for nm, star in (("line", "*(*)"), ("tag", "*(3)")):
                a = args.get(nm)
                if a is None or a.vartype != "character" or squash(star) not in squash((a.dimension or "") + str(a.strlen or "")):
                    out.append({"k": None, "tag": "starlen", "bad": f"dummy argument {nm} declared character {nm}{star}: FORD reports "
                                f"{[(x.name, x.vartype, getattr(x, 'dimension', None)) for x in fn.args if not isinstance(x, str)]}"})
            rv = fn.retvar
            if isinstance(rv, str) or rv.vartype != "character" or "*(8)" not in squash((rv.dimension or "") + str(rv.strlen or "")):
                out.append({"k": None, "tag": "starlen", "bad": f"result declared character res*(8): FORD reports {getattr(rv, 'vartype', rv)!r} {getattr(rv, 'dimension', None)!r}"})
            ban = byname.get("banner")
            if ban is None or "*(12)" not in squash((ban.dimension or "") + str(ban.strlen or "")):
                out.append({"k": None, "tag": "starlen", "bad": f"module variable declared character :: banner*(12): FORD reports names {sorted(n for n in byname if n.startswith('ban'))}"})
            soup = BeautifulSoup(open(os.path.join(d, "doc", fn.get_url()), "rb").read(), "html.parser")
            ptxt = squash(soup.get_text(" "))
            for frag in ("line*(*)", "tag*(3)", "*(8)"):
                if squash(frag) not in ptxt:
                    out.append({"k": None, "tag": "starlen", "bad": f"page {fn.get_url()} does not show {frag!r} as declared"})
        # expressions with relational operators
        for name, want, what in (("rel1", "merge(2,3,1<2)", "initial expression"), ("rel2", "dimension(merge(2,3,1<2))", "dimension attribute"),
                                 ("rel3", "(merge(2,3,1<2))", "dimension on the entity"), ("rel4", "len=count([1<2])", "length expression"),
                                 ("rel5", "kind=merge(4,8,1<2)", "kind expression"), ("rel6", "character(len=nn/2)", "length expression with a division"),
                                 ("rel7", "1==1", "initial expression with =="), ("rel8", "(nn/2)", "dimension with a division"),
                                 ("rel9", "nn>=2.and.nn/=3", "initial expression with >= and /=")):
            var = byname.get(name)
            row = row_of(pages["module/m.html"], var) if var is not None else None
            if row is None:
                out.append({"k": None, "bad": f"{what}: {name} not shown"})
                continue
            if squash(want) not in squash(row.get_text(" ")) or "../" in row.get_text(" "):
                out.append({"k": None, "tag": "relop", "bad": f"{what}: module page shows {norm(row.get_text(' '))!r}, source has {want}"})
        sa = subs.get("attrargs")
        if sa is None:
            out.append({"k": None, "bad": "subroutine attrargs not reported"})
        else:
            aa = {x.name: x for x in sa.args if not isinstance(x, str)}
            got = {nm: (getattr(v, "intent", ""), squash(getattr(v, "dimension", "") or "") or [squash(t) for t in v.attribs if "dimension" in t.lower()], bool(getattr(v, "optional", False)) or "optional" in [t.lower() for t in v.attribs])
                   for nm, v in aa.items()}
            want_a = got.get("a") and got["a"][0] == "inout" and ("(n,n)" in str(got["a"][1]))
            want_n = got.get("n") and got["n"][0] == "in"
            want_w = got.get("w") and got["w"][2]
            if not (want_a and want_n and want_w):
                out.append({"k": None, "tag": "starlen", "bad": f"dummy arguments with INTENT / DIMENSION / OPTIONAL statements: FORD reports (intent, dimension, optional) = {got}"})
            soup = BeautifulSoup(open(os.path.join(d, "doc", sa.get_url()), "rb").read(), "html.parser")
            ptxt = squash(soup.get_text(" ")).lower()
            for frag in ("intent(inout)", "intent(in)", "optional", "(n,n)"):
                if frag not in ptxt:
                    out.append({"k": None, "tag": "starlen", "bad": f"page {sa.get_url()} does not show {frag!r} for the dummy arguments of attrargs"})
        cl = byname.get("contlit")
        want_cl = '"usage: convert [options]  <input> <output>"'
        if cl is None or (cl.initial or "").replace("\xa0", " ") != want_cl:      # FORD shows runs of blanks as non-breaking blanks
            out.append({"k": None, "tag": "relop", "bad": f"continued literal: source value {want_cl!r}, FORD stores {getattr(cl, 'initial', None)!r}"})
        # a function result whose declaration holds a "/" is shown as declared on the module page
        mtxt = pages["module/m.html"].get_text(" ")
        if "real,dimension(nn/2)" not in squash(mtxt) or "../real" in squash(mtxt):
            out.append({"k": None, "tag": "relop", "bad": "function result declared real, dimension(nn/2): the module page does not show it as declared "
                        + repr([l for l in norm(mtxt).split("fdiv")[1:2]][:1])[:200]})
    return out


def run(tier, seed, ck: Check):
    big = tier == "thorough"
    scratch = tlc.scratch_dir("verif-c18m-")
    try:
        base = {"MaxItems": 5 if big else 4, "MaxBody": 2}
        mod, cfg = tlc.make_model(scratch, "LiteralMask", dict(base, Dev=frozenset()), name="MC", spec="Spec", invariants=["EveryLiteralReinsertedOnceInPlace"])
        r = tlc.run(mod, cfg, workers=16, timeout=3000)
        if not r.ok:
            raise tlc.TLCFailure(f"LiteralMask: {r.violated} violated by the mask / restore mechanism model")
        mod, cfg = tlc.make_model(scratch, "LiteralMask", dict(base, MaxItems=3, Dev=frozenset({"NoSkip"})), name="MCv", spec="Spec", invariants=["EveryLiteralReinsertedOnceInPlace"])
        if tlc.run(mod, cfg, workers=8, timeout=600).ok:
            raise tlc.TLCFailure("LiteralMask: the NoSkip deviation is not caught (model vacuous)")
        mod, cfg = tlc.make_model(scratch, "LiteralMask", dict(base, MaxItems=2, Dev=frozenset()), name="MCvac", spec="Spec", invariants=["NeverDigitLiteral"])
        if tlc.run(mod, cfg, workers=4, timeout=600).ok:
            raise tlc.TLCFailure("vacuity guard NeverDigitLiteral not violated")
        ck.coverage["states"] = r.distinct
        ck.coverage["transitions"] = r.generated
    finally:
        shutil.rmtree(scratch, ignore_errors=True)
    cs = contents(2)
    if not big:
        cs = [c for i, c in enumerate(cs) if i < 17 or i % 5 == seed % 5]
    cases = []
    k = 0
    for c in cs:
        for q in ("'", '"'):
            k += 1
            cases.append((k, c, q))
    jobs = [{"cases": cases[i:i + 40]} for i in range(0, len(cases), 40)]
    # the `lower` option lower-cases the code, never the text of literals
    jobs += [{"cases": [c for c in cases if "Ab" in c[1]][:40], "lower": True}]
    res = pool.pmap(evaluate, jobs, chunksize=1)
    bykey = {c[0]: c for c in cases}
    seen_fixed = set()
    for job, rs in zip(jobs, res):
        for c in job["cases"]:
            ck.count()
            if any(ch in c[1] for ch in "<>&\"'\\`*_") or "  " in c[1] or c[1] in ("0", "1"):
                ck.nontrivial_case(json.dumps(c))
        for p in rs:
            c = bykey.get(p["k"])
            if p.get("tag") in ("relop", "starlen"):
                if (p["tag"], p["bad"][:40]) in seen_fixed:
                    continue
                seen_fixed.add((p["tag"], p["bad"][:40]))
            if p.get("tag") == "kindpage" and c and ("<" in c[1] or "&amp;" in c[1]) and ck.known_finding("C18-F8"):
                continue
            ck.violation("declaration-text", {"content": c[1] if c else None, "quote": c[2] if c else None}, detail=p["bad"])
    ck.coverage["traces_validated_against_impl"] = 0
    ck.sample({"literal_contents": cs[:20], "positions": ["initial value", "second entity", "array constructor", "component default", "bind name"]})
    ck.assumptions += [
        "blanks outside literals are FORD's to normalise (it removes them and re-inserts one after commas); runs of blanks inside literals are compared modulo non-breaking blanks",
        "the element structure is compared per declaration row: same number of cells as a harmless row, no elements other than strong/span/a/p/small/em inside",
    ]


def replay_file(path, ck):
    rec = json.load(open(path))
    c = rec["case"]
    ck.count(); ck.nontrivial_case("r1"); ck.nontrivial_case("r2")
    if c.get("content") is None:
        rs = evaluate({"cases": [(1, "a", "'")]})
    else:
        rs = evaluate({"cases": [(1, c["content"], c["quote"])]})
    ck.sample({"case": c, "problems": rs[:4]})
    for p in rs:
        ck.violation("declaration-text", c, detail=p["bad"])


def main():
    a = common.args()
    ck = Check(PROP, "exploration", a.tier, a.seed)
    try:
        if a.replay:
            replay_file(a.replay, ck)
        else:
            run(a.tier, a.seed, ck)
    except tlc.TLCFailure as e:
        return machinery_failure(PROP, str(e))
    return ck.finish(rule="cases = literal contents of <= 2 atoms over 16 atoms (HTML / Markdown significant characters, both quotes, backslash, double blank, "
                          "digit-only, tag-like and [[link]]-like text) x 2 quote characters x 5 displayed positions, plus 5 declarations with relational "
                          "operators in kind / length / dimension / initial expressions; non-trivial iff the content has a significant character; distinct "
                          "by (content, quote)", exhaustive=(a.tier == "thorough"))


if __name__ == "__main__":
    sys.exit(main())
