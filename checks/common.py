"""Shared entry-point plumbing for the per-property check scripts."""
from __future__ import annotations
import argparse
import os
import sys

ROOT = os.path.dirname(os.path.dirname(os.path.abspath(__file__)))
if ROOT not in sys.path:
    sys.path.insert(0, ROOT)
REPO = os.environ.get("VERIF_REPO", "/repo")
if REPO not in sys.path:
    sys.path.insert(0, REPO)          # always the working tree of /repo
os.environ.setdefault("FORD_DEBUGGING", "1")


def args(argv=None):
    ap = argparse.ArgumentParser()
    ap.add_argument("--tier", default=os.environ.get("VERIF_TIER", "quick"), choices=["quick", "thorough"])
    ap.add_argument("--replay", default=None)
    ap.add_argument("--seed", type=int, default=int(os.environ.get("VERIF_SEED", "0") or 0))
    return ap.parse_args(argv)
