#!/venv/bin/python
"""C20 - an unparseable file is skipped without disturbing the rest.

Spec: spec/Pipeline.tla (ParseOk / ParseFail, Containment, NoRegistrationOfFailedFile,
EveryCorruptFileReported, Terminates).  Replay (fault enumeration): valid projects + one or two extra
files obtained by corrupting a valid source at every statement boundary (truncate, drop END, extra END,
misplaced CONTAINS, spliced garbage, undecodable bytes, malformed constructs), placed before / between /
after the valid files in the read order; the canonical tree, page URLs and diagnostics of the run with
the corrupt file are compared with the run without it, under a watchdog.
"""
from __future__ import annotations
import json
import os
import shutil
import sys
import zlib

sys.path.insert(0, os.path.dirname(os.path.abspath(__file__)))
import common  # noqa: E402
from vlib import tlc, pool, fordrun, tree  # noqa: E402
from vlib.verdict import Check, machinery_failure, load_known  # noqa: E402

PROP = "C20"
WATCHDOG = 30

VALID = {
    "k_geom.f90": "module geom\n  !! geometry\n  implicit none\n  type :: point\n    real :: x, y\n  end type point\ncontains\n  subroutine reset(p)\n    !! reset a point\n    type(point) :: p\n    call helper(p)\n  end subroutine reset\n  subroutine helper(p)\n    type(point) :: p\n  end subroutine helper\nend module geom\n",
    "p_main.f90": "program main\n  use geom\n  implicit none\n  type(point) :: q\n  call reset(q)\n  call helper(q)\n  call driver()\ncontains\n  subroutine driver()\n    call reset(q)\n  end subroutine driver\nend program main\n",
    "t_tools.f90": "module tools\n  use geom, only: point\n  implicit none\ncontains\n  subroutine reset(n)\n    !! a second reset\n    integer :: n\n  end subroutine reset\n  function area(p) result(a)\n    type(point) :: p\n    real :: a\n    a = p%x * p%y\n    call helper(p)\n  end function area\nend module tools\n",
}

# the source that gets corrupted: defines names that also exist in the valid files (reset, point, helper) and uses them
VICTIM = ("module extra\n  !! extra module\n  use geom\n  implicit none\n  type :: point2\n    integer :: i\n  end type point2\n  integer :: counter\ncontains\n"
          "  subroutine reset(k)\n    !! third reset\n    integer :: k\n    associate (helper => k)\n      call helper_thing(helper)\n    end associate\n  end subroutine reset\n"
          "  function helper(z) result(r)\n    integer :: z, r\n    namelist /settings_group/ counter_value_number_one, counter_value_number_two\n"
          "    integer :: counter_value_number_one, counter_value_number_two\n    r = z\n  end function helper\nend module extra\n")

MALFORMED = {
    "two-programs-nested": "program a\n  program b\nend program a\n",
    "modproc-outside": "program a\n  module procedure nope\nend program a\n",
    "sub-in-spec": "module a\n  subroutine s()\n  end subroutine s\nend module a\n",
    "submodule-in-program": "program a\n  submodule (x) y\nend program a\n",
    "amp-start": "module a\n  & integer :: x\nend module a\n",
    "predoc-inline": "module a\n  integer :: x !> inline predoc\nend module a\n",
    "amp-start-brackets": "module a\n  character(len=40) :: usage\n  & = \"[/path/to/input] [options]\"\nend module a\n",
    "text": "this is not Fortran at all\n%%%% ???? ((((\n",
    "empty": "",
    "only-comments": "! nothing here\n!! nor here\n",
    "unterminated-string": "module a\n  character(len=5) :: c = 'abc\nend module a\n",
    "contains-twice": "module a\ncontains\n  subroutine s()\n  end subroutine s\ncontains\nend module a\n",
    "interface-contains": "module a\n  interface b\n  contains\n  end interface\nend module a\n",
    "enum-noninteger": "module a\n  enum, bind(c)\n    enumerator :: red = 1.5\n  end enum\nend module a\n",
}


def corruptions(seed, big):
    lines = VICTIM.splitlines(keepends=True)
    out = []
    for k in range(1, len(lines)):
        out.append((f"truncate@{k}", "".join(lines[:k]).encode()))
    out.append(("drop-last-end", "".join(lines[:-1]).encode()))
    out.append(("extra-end", (VICTIM + "end module extra\n").encode()))
    out.append(("extra-end-bare", (VICTIM + "end\n").encode()))
    for k in (3, 5, 9, 12):
        out.append((f"misplaced-contains@{k}", "".join(lines[:k] + ["contains\n"] + lines[k:]).encode()))
    for k in range(1, len(lines), 1 if big else 3):
        out.append((f"garbage@{k}", "".join(lines[:k] + ["@@@ ??? (((\n"] + lines[k:]).encode()))
    for k in range(1, len(lines) - 1):                           # a lost line break glues two statements together
        out.append((f"join@{k}", "".join(lines[:k] + [lines[k].rstrip("\n") + " " + lines[k + 1].lstrip()] + lines[k + 2:]).encode()))
    for k in (2, 10, len(lines) - 1):
        out.append((f"undecodable@{k}", "".join(lines[:k]).encode() + b"  ! \xff\xfe\xfa bytes\n" + "".join(lines[k:]).encode()))
    # a complete, correct module followed by a second program unit on which the parser raises: nothing of the file may stay behind
    out.append(("complete-unit-then-raise", (VICTIM + "\nmodule broken_tail\n  & integer :: x\nend module broken_tail\n").encode()))
    for name, text in MALFORMED.items():
        out.append((f"malformed:{name}", text.encode()))
    return out


POSITIONS = {"before": "a_bad.f90", "between": "m_bad.f90", "after": "z_bad.f90", "bracketdir": "[old]/q_[v2]_bad.f90"}


def observe(files):
    """Run FORD (default error settings: dbg=True) under a watchdog; return observable of the run."""
    def go():
        cap = []
        p = fordrun.project(files, capture=cap)
        return {"tree": tree.project_tree(p), "urls": tree.entity_urls(p), "registered": sorted(f.name for f in p.files), "stdout": cap[0] if cap else ""}
    try:
        # in a child of its own that is killed when the time is up: a signal-based watchdog cannot interrupt a regular-expression match
        return pool.run_isolated(go, WATCHDOG)
    except pool.Timeout:
        return {"_hang": True}
    except BaseException as ex:  # noqa: BLE001
        return {"_crash": str(ex)}


_BASE = {}


def evaluate(case):
    label, data, pos = case["label"], bytes.fromhex(case["data"]), case["pos"]
    bad_name = POSITIONS[pos]
    if "base" not in _BASE:
        _BASE["base"] = observe(dict(VALID))        # the run without the extra file: once per worker process
    base = _BASE["base"]
    files = dict(VALID)
    files[bad_name] = data
    if case.get("second"):
        files["zz_bad2.f90"] = bytes.fromhex(case["second"])
    obs = observe(files)
    problems = []
    if obs.get("_hang"):
        return {"problems": [("hang", f"FORD did not terminate within {WATCHDOG}s")], "rejected": None}
    if obs.get("_crash"):
        return {"problems": [("abort", f"the run aborted: {obs['_crash']}")], "rejected": None}
    bad_base = os.path.basename(bad_name)
    rejected = bad_base not in obs["registered"]
    bad_files = {bad_base, "zz_bad2.f90"}
    reports_error = ("ERROR in file" in obs["stdout"] or "Error parsing" in obs["stdout"])
    if case.get("second") and not (rejected and "zz_bad2.f90" not in obs["registered"]):
        # two extra files of which FORD accepts at least one as an ordinary source: that one legitimately takes part in
        # naming, so there is no run "without them" to compare with; termination (checked above) is all that is demanded
        return {"problems": [], "rejected": rejected, "accepted_silently": True}
    if not rejected and not reports_error and not case.get("second"):
        # FORD parsed the file without complaint: for FORD it is an ordinary source file, not an unparseable one;
        # only termination (checked above) is demanded
        return {"problems": [], "rejected": False, "accepted_silently": True}
    # the valid files' part of the observable must be what it is without the corrupt file
    vt = [f for f in obs["tree"]["files"] if f["name"] not in bad_files]
    d = tree.diff({"files": base["tree"]["files"]}, {"files": vt})
    if d:
        problems.append(("tree", "documentation of the valid files changed: " + "; ".join(d[:3])))
    for k, u in base["urls"].items():
        if obs["urls"].get(k) != u:
            problems.append(("url", f"{k}: URL {u!r} without the corrupt file, {obs['urls'].get(k)!r} with it"))
            break
    reported = ("Error parsing" in obs["stdout"] or "ERROR in file" in obs["stdout"]) and bad_name in obs["stdout"].replace("\n", "")
    if rejected and not reported:
        problems.append(("not-named", f"{bad_name} was rejected but the diagnostic does not name it: {obs['stdout'][-200:]!r}"))
    if reports_error and not rejected:
        problems.append(("registered-despite-error", f"{bad_name}: an error was reported but the file is still registered"))
    return {"problems": problems, "rejected": rejected}


def model_check(scratch, ck, dev):
    tot = 0
    gen = 0
    for kinds in (("valid", "reports", "valid", "valid"), ("raises", "valid", "valid"), ("valid", "valid", "reports"), ("valid", "raises", "reports", "valid")):
        n = len(kinds)
        fn = lambda body: "=(" + " @@ ".join(f"{i + 1} :> {body(i)}" for i in range(n)) + ")"
        # one module per file; file i uses file 1, file 4 also file 3 (two dependency levels); every second entity is called "same";
        # entities are named in reverse file order (so numbering depends on who is registered); one project-level page
        consts = {"Files": frozenset(range(1, n + 1)), "Kind": fn(lambda i: f'"{kinds[i]}"'),
                  "Units": frozenset(range(1, n + 1)), "FileOf": fn(lambda i: i + 1), "Class": fn(lambda i: 0),
                  "UsesOf": fn(lambda i: "{}" if i == 0 else ("{1, 3}" if i == 3 else "{1}")), "Rank": fn(lambda i: n - i),
                  "Ents": frozenset(range(1, n + 1)), "EFile": fn(lambda i: i + 1),
                  "EKey": fn(lambda i: '<<"proc", "same">>' if i % 2 == 0 else '<<"proc", "other">>'), "NameRank": fn(lambda i: n - i),
                  "Pages": frozenset(range(1, n + 2)), "PFile": "=(" + " @@ ".join([f"{i + 1} :> {i + 1}" for i in range(n)] + [f"{n + 1} :> 0"]) + ")"}
        mod, cfg = tlc.make_model(scratch, "Pipeline", dict(consts, Dev=frozenset()), name=f"MCd{n}{kinds[0][0]}", spec="Spec",
                                  invariants=["CorrelateAfterDeps", "PruneAfterCorrelate", "NoRegistrationOfFailedFile", "EveryCorruptFileReported", "Containment",
                                              "NamesInjective", "WriteOnlyRegistered", "WriteAfterWipe", "NothingBeforeParseEnds"],
                                  properties=["Terminates"])
        r = tlc.run(mod, cfg, workers=4, timeout=600)
        if not r.ok:
            raise tlc.TLCFailure(f"Pipeline{kinds}: {r.violated} violated in the design model")
        tot += r.distinct
        gen += r.generated
    # vacuity: the as-built deviation is visible to the invariants
    mod, cfg = tlc.make_model(scratch, "Pipeline", dict(consts, Dev=frozenset({"ReportContinues"})), name="MCv", spec="Spec",
                              invariants=["NoRegistrationOfFailedFile"])
    if tlc.run(mod, cfg, workers=4, timeout=600).ok:
        raise tlc.TLCFailure("Pipeline: ReportContinues not caught (model vacuous)")
    mod, cfg = tlc.make_model(scratch, "Pipeline", dict(consts, Dev=frozenset({"ReportContinues"})), name="MCv2", spec="Spec", invariants=["Containment"])
    if tlc.run(mod, cfg, workers=4, timeout=600).ok:
        raise tlc.TLCFailure("Pipeline: a registered corrupt file does not disturb the numbering in the model (Containment vacuous)")
    ck.coverage["states"] = tot
    ck.coverage["transitions"] = gen


LAYERED = {
    "a_base.f90": "module base\n  implicit none\n  type :: t\n    integer :: i\n  end type t\ncontains\n  subroutine init(x)\n    type(t) :: x\n  end subroutine init\nend module base\n",
    "b_mid.f90": "module mid\n  implicit none\ncontains\n  subroutine work()\n    use base\n    type(t) :: v\n    call init(v)\n  end subroutine work\nend module mid\n",
    "c_top.f90": "module top\n  use mid\n  implicit none\n  interface\n    module subroutine ms()\n    end subroutine ms\n  end interface\nend module top\n",
    "d_sub.f90": "submodule (top) top_impl\ncontains\n  module subroutine ms()\n    use leaf, only: init\n    call init()\n  end subroutine ms\nend submodule top_impl\n",
    "e_leaf.f90": "module leaf\ncontains\n  subroutine init()\n  end subroutine init\n  subroutine Work()\n  end subroutine Work\nend module leaf\n",
    "f_main.f90": "program main\n  use top\n  call work()\n  call outer()\nend program main\n",
    "g_ext.f90": "subroutine outer()\n  use leaf\n  call init()\nend subroutine outer\nfunction outerf() result(r)\n  integer :: r\n  r = 1\nend function outerf\n",
    "h_bd.f90": "block data bd\n  integer :: k\n  common /blk/ k\nend block data bd\n",
}


def trace_job(job):
    """One whole run recorded for Pipeline_Trace (runs in a pool worker)."""
    from vlib import pipebind
    name, files, meta = job
    try:
        ok, events, log = pool.run_isolated(lambda: pipebind.record(files, meta), 2 * WATCHDOG)
    except pool.Timeout:
        return {"name": name, "ok": False, "events": None, "log": "", "hang": True}
    return {"name": name, "ok": ok, "events": events, "log": log}


def pipeline_traces(ck, dev, cor, big, seed):
    """Direction 2 of the umbrella spec: whole runs of the real ford.main are behaviours of Pipeline."""
    from vlib import pipebind
    from concurrent.futures import ThreadPoolExecutor
    jobs = [("valid", dict(VALID), {}), ("layered", dict(LAYERED), {}), ("layered-private", dict(LAYERED), {"display": ["public", "private"], "proc_internals": True}),
            ("layered+valid", dict(VALID, **LAYERED), {"incl_src": True})]
    step = 3 if big else 9
    always = [i for i, (lab, _) in enumerate(cor) if lab.startswith(("undecodable", "complete-unit"))]
    for i in sorted(set(range(seed % step, len(cor), step)) | set(always)):
        label, data = cor[i]
        pos = list(POSITIONS.values())[i % 3]
        jobs.append((f"{label}@{pos}", dict(VALID, **{pos: data}), {}))
        if i % 2 == 0:
            jobs.append((f"layered+{label}", dict(LAYERED, **{"c_bad.f90": data}), {}))
    ex_src = os.path.join(common.REPO, "example", "src")
    if os.path.isdir(ex_src):
        exfiles = {f: open(os.path.join(ex_src, f), "rb").read() for f in sorted(os.listdir(ex_src)) if os.path.isfile(os.path.join(ex_src, f))}
        jobs.append(("repo-example", exfiles, {"predocmark": ">", "docmark_alt": "#", "predocmark_alt": "<", "display": ["public", "protected"],
                                               "exclude": "src/excluded_file.f90", "extensions": ["f90", "fpp"], "fpp_extensions": []}))
    recs = pool.pmap(trace_job, jobs, chunksize=1)
    for r in recs:
        if r.get("hang"):
            ck.violation("hang", {"run": r["name"]}, detail=f"whole run '{r['name']}': FORD did not terminate within {2 * WATCHDOG}s")
    recs = [r for r in recs if not r.get("hang")]
    for r in recs:
        if not r["ok"] and r["name"] not in ("repo-example",):
            # a project with valid files must be documented whatever the extra file looks like: the run may not abort
            ck.violation("abort", {"run": r["name"]}, detail=f"whole run '{r['name']}' aborted: {r['log'][-300:]!r}")
    with ThreadPoolExecutor(max_workers=12) as ex:
        verdicts = list(ex.map(lambda r: pipebind.validate(r["events"], dev), recs))
    nev = 0
    drift = []
    for r, v in zip(recs, verdicts):
        nev += v["events"]
        if v["accepted"]:
            continue
        detail = f"whole run '{r['name']}' is not a behaviour of Pipeline: event {v['consumed'] + 1} of {v['events']} ({v['next_event']}): {v['why']}"
        corrupt_run = r["name"] not in ("valid", "layered", "layered-private", "layered+valid", "repo-example")
        if v["owner"] == "C20" or (v["owner"] == "C10" and corrupt_run):
            # a page name handed out differently from the model in a run with a rejected file: the file's names were taken (Containment)
            ck.violation("pipeline-trace", {"run": r["name"]}, observed=v["next_event"], detail=detail)
        else:
            drift.append(detail + " - not a C20 clause: the as-built stage model of spec/Pipeline.tla no longer describes the code"
                         + (f" (clause owned by {v['owner']})" if v["owner"] else ""))
    if drift and not ck.violations:
        raise tlc.TLCFailure(drift[0])          # no C20 clause failed, yet the stage model does not describe the code: machinery
    if drift:
        ck.notes["pipeline_model_drift"] = drift[:3]
    # the trace spec binds: corrupted records of an accepted run are rejected
    good = next((r for r, v in zip(recs, verdicts) if v["accepted"] and r["name"] == "layered"), None)
    if good is None:
        if ck.violations:
            return              # violations have been reported; the self-test of the trace spec needs an accepted run
        raise tlc.TLCFailure("Pipeline_Trace: the layered reference run was not accepted")
    corrupted = []
    for mode in range(6):
        ev = json.loads(json.dumps(good["events"]))
        idx = lambda kind: [i for i, e in enumerate(ev) if e["ev"] == kind]
        if mode == 0:
            a, b = idx("correlate")[:2]; ev[a], ev[b] = ev[b], ev[a]
        elif mode == 1:
            del ev[idx("page")[2]]
        elif mode == 2:
            [e for e in ev if e["ev"] == "name" and e["n"] == 2][0]["n"] = 1
        elif mode == 3:
            p_ = ev.pop(idx("page")[0]); ev.insert(idx("wipe")[0], p_)
        elif mode == 4:
            a, b = idx("parse")[:2]; ev[a], ev[b] = ev[b], ev[a]
        else:
            ev[idx("parse")[1]]["ok"] = False         # a file that failed, yet its units are correlated and its pages written
        corrupted.append(ev)
    with ThreadPoolExecutor(max_workers=6) as ex:
        cv = list(ex.map(lambda e_: pipebind.validate(e_, dev), corrupted))
    if any(v["accepted"] for v in cv):
        raise tlc.TLCFailure(f"Pipeline_Trace accepted corrupted runs {[i for i, v in enumerate(cv) if v['accepted']]}: the trace spec does not bind")
    if cv[5]["owner"] != "C20":
        raise tlc.TLCFailure(f"Pipeline_Trace: a leaked failed file was attributed to {cv[5]['owner']}: {cv[5]['why']}")
    ck.coverage["traces_validated_against_impl"] = len(verdicts)
    ck.coverage["pipeline_events_checked"] = nev
    ck.coverage["corrupted_traces_rejected"] = len(cv)
    ck.coverage["pipeline_runs"] = [r["name"] for r in recs][:40]


def known(tag, case, ck):
    if tag in ("registered-despite-error", "tree", "url") and case.get("reports_error_kind"):
        return ck.known_finding("C20-F1")
    return False


def run(tier, seed, ck: Check):
    big = tier == "thorough"
    dev = ("ReportContinues",) if "C20-F1" in load_known(PROP) else ()
    scratch = tlc.scratch_dir("verif-c20-")
    try:
        model_check(scratch, ck, dev)
    finally:
        shutil.rmtree(scratch, ignore_errors=True)
    cor = corruptions(seed, big)
    cases = []
    for label, data in cor:
        positions = list(POSITIONS)
        for pos in positions:
            cases.append({"label": label, "data": data.hex(), "pos": pos})
    # two corrupt files at once
    for i in range(0, len(cor) - 1, 7 if big else 17):
        cases.append({"label": cor[i][0] + "+" + cor[i + 1][0], "data": cor[i][1].hex(), "pos": "before", "second": cor[i + 1][1].hex()})
    results = pool.pmap(evaluate, cases, chunksize=2)
    nrej = 0
    for c, r in zip(cases, results):
        ck.count()
        ck.nontrivial_case(c["label"] + "@" + c["pos"])
        if r["rejected"]:
            nrej += 1
        tags = {t for t, _ in r["problems"]}
        for tag, detail in r["problems"]:
            # signature of C20-F1: an error is reported through print_error, yet the file is registered; its
            # partial contents may then shift the numbering / links of the valid files
            if "registered-despite-error" in tags and tag in ("registered-despite-error", "tree", "url") and ck.known_finding("C20-F1"):
                continue
            ck.violation(tag, {"label": c["label"], "pos": c["pos"], "data_hex": c["data"], "second": c.get("second")}, detail=f"{c['label']} ({c['pos']}): {detail}")
    ck.coverage["rejected_files"] = nrej
    pipeline_traces(ck, dev, cor, big, seed)
    ck.sample({"valid_files": sorted(VALID), "corruption": cases[3]["label"], "position": cases[3]["pos"],
               "corrupt_text": bytes.fromhex(cases[3]["data"]).decode(errors="replace")})
    ck.assumptions += [
        "default error settings (dbg = true, force = false); preprocess off",
        "a file FORD parses without reporting anything (e.g. plain text, an empty file) is not 'unparseable': only the differential and termination clauses apply to it",
        "'apart from references into it': the corrupt file defines no entity that a valid file refers to",
        f"watchdog {WATCHDOG}s per run (clean runs take milliseconds)",
    ]


def replay_file(path, ck):
    rec = json.load(open(path))
    c = rec["case"]
    r = evaluate({"label": c["label"], "data": c["data_hex"], "pos": c["pos"], "second": c.get("second")})
    ck.count(); ck.nontrivial_case("r1"); ck.nontrivial_case("r2")
    ck.sample({"case": c["label"], "problems": r["problems"]})
    tags = {t for t, _ in r["problems"]}
    for tag, detail in r["problems"]:
        if "registered-despite-error" in tags and tag in ("registered-despite-error", "tree", "url") and ck.known_finding("C20-F1"):
            continue
        ck.violation(tag, c, detail=detail)


def main():
    a = common.args()
    ck = Check(PROP, "fault_enumeration", a.tier, a.seed)
    try:
        if a.replay:
            replay_file(a.replay, ck)
        else:
            run(a.tier, a.seed, ck)
    except tlc.TLCFailure as e:
        return machinery_failure(PROP, str(e))
    return ck.finish(rule="faults = a valid 3-file project + an extra file obtained from a valid source by truncation at every statement boundary, dropped / extra "
                          "END, misplaced CONTAINS, spliced garbage, undecodable bytes, or drawn from 13 malformed constructs, read before / between / after "
                          "the valid files (and pairs of corrupt files); each (corruption, position) is a distinct non-trivial case", exhaustive=False)


if __name__ == "__main__":
    sys.exit(main())
