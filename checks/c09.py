#!/venv/bin/python
"""C09 - every internal link in the output resolves, and the output is relocatable.

Spec: spec/Pages.tla (list pages written vs. linked, per project shape).  TLC checks
NavLinksWritten over all shapes and enumerates them; each shape is rendered as a project, built end to
end with an option combination, and every href/src/xlink:href/search url of every page is crawled:
relative, existing target, existing fragment; the tree is then moved and crawled again.
"""
from __future__ import annotations
import json
import os
import random
import re
import shutil
import sys
import zlib

sys.path.insert(0, os.path.dirname(os.path.abspath(__file__)))
import common  # noqa: E402
from vlib import tlc, tlaval, pool, fordrun, site  # noqa: E402
from vlib.verdict import Check, machinery_failure, load_known  # noqa: E402

PROP = "C09"
KINDS = ("files", "extra", "modules", "submodules", "programs", "procedures", "types", "absint", "blockdata", "namelists")


def as_built_dev():
    return ("IndexFilesLink",) if "C09-F1" in load_known(PROP) else ()


# ---------------------------------------------------------------- rendering a shape
def render(shape):
    """A project with exactly the shape's number of page-bearing entities of each kind."""
    units = []     # (text) program units to distribute over files
    inner_types = [f"  type :: ty{k}\n    !! type {k}\n    integer :: comp{k} !! component\n  contains\n    procedure :: bp{k}\n    procedure :: run{k} => bp{k}\n    generic :: any{k} => bp{k}, run{k}\n  end type ty{k}\n"
                   for k in range(shape["types"])]
    inner_abs = [f"  abstract interface\n    subroutine ai{k}(x)\n      !! abstract interface {k}\n      integer :: x\n    end subroutine ai{k}\n  end interface\n"
                 for k in range(shape["absint"])]
    inner_nl = [f"  integer :: nv{k}\n  namelist /nl{k}/ nv{k}\n" for k in range(shape["namelists"])]
    # binding targets: documented in two paragraphs (FORD then writes a summary with a "Read more" link) and, in a module,
    # PRIVATE: under the default display they have no page of their own and are shown inline with the binding
    type_impl = [f"  subroutine bp{k}(self)\n    !! binding target {k}\n    !!\n    !! second paragraph about binding target {k}\n"
                 f"    class(ty{k}) :: self\n      !! the object\n      !!\n      !! second paragraph about the object\n"
                 f"    call hs0(self%comp{k})\n  end subroutine bp{k}\n" for k in range(shape["types"])]
    host_is_module = shape["modules"] > 0
    if host_is_module and shape["types"]:
        inner_nl = [f"  private :: " + ", ".join(f"bp{k}" for k in range(shape["types"])) + "\n"] + inner_nl
    for k in range(shape["modules"]):
        spec = "".join(inner_types + inner_abs + inner_nl) if k == 0 else ""
        sub_iface = "".join(f"  interface\n    module subroutine ms{j}(a)\n      integer :: a\n    end subroutine ms{j}\n  end interface\n"
                            for j in range(shape["submodules"])) if k == 0 else ""
        if k == 0:
            sub_iface += "  interface gen0\n    !! generic interface\n    module procedure hs0\n  end interface gen0\n"
            # every type has a constructor: a generic interface of the type's name
            sub_iface += "".join(f"  interface ty{j}\n    !! constructor of ty{j}\n    module procedure mk{j}\n  end interface ty{j}\n" for j in range(shape["types"]))
        use = f"  use mo{k - 1}\n" if k > 0 else ""
        impl = "".join(type_impl) if k == 0 else ""
        if k == 0:
            impl += "".join(f"  function mk{j}(v) result(t)\n    !! makes a ty{j}\n    integer, intent(in) :: v\n    type(ty{j}) :: t\n    t%comp{j} = v\n  end function mk{j}\n"
                            for j in range(shape["types"]))
        units.append(f"module mo{k}\n  !! module {k} see [[mo0]]" + (" and [[mo1(module):mv1]]" if shape["modules"] >= 2 else "") + f"\n{use}  implicit none\n  integer :: mv{k} = 1\n    !! variable\n    !!\n    !! second paragraph about the variable\n{spec}{sub_iface}contains\n"
                     f"  subroutine hs{k}(a)\n    !! module procedure {k}\n    !!\n    !! second paragraph about module procedure {k}\n    integer :: a\n      !! argument\n      !!\n      !! second paragraph about the argument\n  end subroutine hs{k}\n{impl}end module mo{k}\n")
    for j in range(shape["submodules"]):
        # the first submodule is called like the second module (its page must not take the module's place)
        smname = "mo1" if (j == 0 and shape["modules"] >= 2) else f"sm{j}"
        units.append(f"submodule (mo0) {smname}\n  !! submodule {j}\ncontains\n  module subroutine ms{j}(a)\n    integer :: a\n    call hs0(a)\n  end subroutine ms{j}\nend submodule {smname}\n")
    for k in range(shape["programs"]):
        spec = "".join(inner_types + inner_abs + inner_nl) if (k == 0 and not host_is_module) else ""
        use = "  use mo0\n" if shape["modules"] else ""
        call = "  call hs0(pv)\n" if shape["modules"] else ""
        call += "  call ex0(pv)\n" if shape["procedures"] else ""
        impl = ("contains\n" + "".join(type_impl).replace("call hs0(self%comp", "call noop(self%comp") +
                "  subroutine noop(a)\n    integer :: a\n  end subroutine noop\n") if (spec and inner_types) else ""
        units.append(f"program pr{k}\n  !! program {k}\n{use}  implicit none\n  integer :: pv\n{spec}{call}{impl}end program pr{k}\n")
    for k in range(shape["procedures"]):
        nl = "".join(inner_nl) if (k == 0 and not host_is_module and shape["programs"] == 0) else ""
        units.append(f"subroutine ex{k}(a)\n  !! external procedure {k}\n  integer :: a\n{nl}end subroutine ex{k}\n")
    for k in range(shape["blockdata"]):
        units.append(f"block data bd{k}\n  !! block data {k}\n  integer :: bv{k}\n  common /cb{k}/ bv{k}\nend block data bd{k}\n")
    nf = shape["files"]
    files = {f"src/file{i}.f90": "" for i in range(nf)}
    for idx, u in enumerate(units):
        files[f"src/file{idx % nf}.f90"] += u + "\n"
    for k in range(shape["extra"]):
        files[f"src/script{k}.sh"] = "#! extra file\necho hi\n"
    return files


OPTSETS = [
    {},
    {"search": True},
    {"graph": True},
    {"search": True, "graph": True, "proc_internals": True},
    {"display": ["public", "private", "protected"], "sort": "alpha"},
    {"page_dir": "./pages", "search": True},
    {"graph": True, "page_dir": "./pages", "sort": "type-alpha", "source": True},
    {"graph": True, "graph_maxnodes": 2, "graph_maxdepth": 2},      # small limit: graphs fall back to the table form
    {"page_dir": "./pages", "search": True, "_via_symlink": True},   # the project is reached through a symbolic link (ford /link/proj/proj.md)
    {"graph": True, "_via_symlink": True},
]

PAGES = {"pages/index.md": "---\ntitle: Notes\nordered_subpage: sub\n---\n\nSee [[mo0]] and [sub](sub/index.html) and |url|/index.html and the attached [data](data.txt)\n",
         "pages/data.txt": "1 2 3\n",
         "pages/sub/index.md": "---\ntitle: Sub\nordered_subpage: leaf.md\n---\n\nBack to [top](../index.html); attached [figure](fig.txt).\n",
         "pages/sub/fig.txt": "a figure\n",
         "pages/sub/leaf.md": "---\ntitle: Leaf\n---\n\nLeaf page, see [[pr0]] and |page|/index.html\n"}


def evaluate(case):
    shape, opts = case["shape"], case["opts"]
    files = render(shape)
    meta = {"incl_src": shape["incl_src"], "max_frontpage_items": 10 if shape["front_items"] else 0,
            # texts of the project file that are shown on the front page carry references too
            "summary": "Summary with a link to [[mo0]].", "author": "A. Author", "author_description": "Wrote [[pr0]]."}
    if shape["extra"]:
        meta["extra_filetypes"] = "sh #"
    meta.update({k: v for k, v in opts.items() if not k.startswith("_")})
    if "page_dir" in opts:
        files = dict(files, **PAGES)
    problems = []
    with fordrun.tempdir() as d0:
        d = d0
        if opts.get("_via_symlink"):
            os.makedirs(os.path.join(d0, "real", "proj"))
            os.symlink("real", os.path.join(d0, "work"))
            d = os.path.join(d0, "work", "proj")
        fordrun.write_files(d, files)
        ok, out, err = site.run_inproc(d, meta, body="Front page text with a link to [[mo0]] and [[pr0]].")
        if not ok:
            return {"problems": [{"why": f"FORD failed: {type(err).__name__}: {err}", "page": "", "url": ""}], "written": [], "files": files}
        outdir = os.path.join(d, "doc")
        written = sorted(p for p in site.html_files(outdir) if p.startswith("lists/"))
        problems += site.link_problems(outdir)
        problems += search_problems(outdir)
        # relocate and crawl again (catches links that only work in place)
        moved = os.path.join(d0, "elsewhere", "site")
        os.makedirs(os.path.dirname(moved))
        shutil.move(outdir, moved)
        for p in site.link_problems(moved):
            p["why"] += " (after relocation)"
            if not any(q["page"] == p["page"] and q["url"] == p["url"] for q in problems):
                problems.append(p)
        for rel in site.html_files(moved):
            if d in open(os.path.join(moved, rel), encoding="utf-8", errors="replace").read().replace(f"file://{d}", ""):
                pass
    return {"problems": problems, "written": written, "files": files if problems else None}


def search_problems(outdir):
    db = site.search_db(outdir)
    if db is None:
        return []
    out = []
    for page in db.get("pages", []):
        url = page.get("url", "")
        if url.startswith(site.EXTERNAL_SCHEMES):
            continue
        if url.startswith("/") or "://" in url:
            out.append({"page": "search/search_database.json", "url": url, "why": "absolute URL in search index"})
            continue
        # the search page lives at the root of the output directory
        path = url.split("#")[0]
        if not os.path.exists(os.path.join(outdir, path)):
            out.append({"page": "search/search_database.json", "url": url, "why": "search index points at a missing file"})
    return out


def _parse_block(block):
    if '/\\ phase = "done"' not in block:
        return None
    st = tlaval.parse_state(block)
    sh = dict(st["shape"])
    o = st["out"]
    return {"shape": sh, "written": sorted(o["written"]), "nav": sorted(o["nav"]), "front": sorted(o["front"])}


def known(p, case, ck):
    if p["url"].endswith("lists/files.html") and "does not exist" in p["why"] and case["shape"]["files"] + case["shape"]["extra"] <= 1:
        return ck.known_finding("C09-F1")
    if re.match(r"module/\w+\.html$", p["page"]) and "#namelist-" in p["url"] and "fragment" in p["why"]:
        return ck.known_finding("C09-F2")
    return False


def run(tier, seed, ck: Check):
    big = tier == "thorough"
    dev = as_built_dev()
    scratch = tlc.scratch_dir("verif-c09-")
    try:
        # design level, as built: the only nav/page inconsistencies are the recorded ones
        mod, cfg = tlc.make_model(scratch, "Pages", {"MaxCount": 2, "Dev": frozenset(dev)}, name="MCd", spec="Spec",
                                  invariants=[] if dev else ["NavLinksWritten"])
        r0 = tlc.run(mod, cfg, workers=16, timeout=1800)
        if not r0.ok:
            raise tlc.TLCFailure(f"Pages: {r0.violated} violated by the transcribed templates: {r0.counterexample[-1:]}")
        mod, cfg = tlc.make_model(scratch, "Pages", {"MaxCount": 1, "Dev": frozenset()}, name="MCvac", spec="Spec", invariants=["NeverOneFile"])
        if tlc.run(mod, cfg, workers=4, timeout=600).ok:
            raise tlc.TLCFailure("vacuity guard NeverOneFile not violated")
        mod, cfg = tlc.make_model(scratch, "Pages", {"MaxCount": 1, "Dev": frozenset(dev)}, name="MCg", spec="Spec")
        dump = os.path.join(scratch, "gen")
        r = tlc.run(mod, cfg, workers=16, dump=dump, timeout=1800)
        shapes = [c for c in pool.pmap(_parse_block, tlc.read_dump_blocks(r.dump_file), chunksize=500) if c]
        os.remove(r.dump_file)
        ck.coverage["states"] = r0.distinct + r.distinct
        ck.coverage["transitions"] = r0.generated + r.generated
        ck.coverage["shapes"] = len(shapes)
        # second file / second entity of a kind: lift some counts to 2 deterministically
        rng = random.Random(seed)
        cases = []
        for s in shapes:
            h = zlib.crc32(json.dumps(s["shape"], sort_keys=True).encode())
            sh = dict(s["shape"])
            if h % 3 == 0:
                for k in ("programs", "blockdata", "modules", "procedures"):
                    if sh[k] == 1 and (h >> 3) % 2:
                        sh[k] = 2
            nunits = sh["modules"] + sh["submodules"] + sh["programs"] + sh["procedures"] + sh["blockdata"]
            if nunits >= 2 and (h >> 5) % 2:
                sh["files"] = 2
            optsets = OPTSETS if big else [OPTSETS[h % len(OPTSETS)]]
            for o in optsets:
                cases.append({"shape": sh, "opts": o, "spec": s})
        if not big:
            cases = [c for i, c in enumerate(sorted(cases, key=lambda c: json.dumps(c, sort_keys=True))) if i % 3 == seed % 3]
        results = pool.pmap(evaluate, cases, chunksize=2)
        for c, r_ in zip(cases, results):
            ck.count()
            ck.nontrivial_case(json.dumps([c["shape"], c["opts"]], sort_keys=True))
            seen = set()
            for p in r_["problems"]:
                key = (p["why"].split(" (after")[0], re.sub(r"\d+", "N", p["url"]))
                if key in seen:
                    continue
                seen.add(key)
                if known(p, c, ck):
                    continue
                ck.violation("dead-link", {"shape": c["shape"], "opts": c["opts"]}, observed=p,
                             detail=f"{p['page']}: {p['url']} - {p['why']}", extra={"files": r_["files"]})
        for c in cases[:: max(1, len(cases) // 3)][:3]:
            ck.sample({"shape": c["shape"], "opts": c["opts"], "files": sorted(render(c["shape"]))})
        ck.coverage["traces_validated_against_impl"] = 0
        ck.assumptions += [
            "links with schemes http(s)/mailto/javascript/data are external and not followed; everything else must be relative, exist below the output directory and its fragment must be an id (or a name) in the target",
            "shapes: 0/1 entities of each page-bearing kind exhaustively (TLC), some counts lifted to 2 deterministically; one option set per shape in quick, all 7 in thorough",
        ]
    finally:
        shutil.rmtree(scratch, ignore_errors=True)


def replay_file(path, ck):
    rec = json.load(open(path))
    c = rec["case"]
    r = evaluate({"shape": c["shape"], "opts": c["opts"]})
    ck.count(); ck.nontrivial_case("r1"); ck.nontrivial_case("r2")
    ck.sample({"case": c, "problems": r["problems"][:5]})
    for p in r["problems"]:
        if known(p, c, ck):
            continue
        ck.violation("dead-link", c, observed=p, detail=f"{p['page']}: {p['url']} - {p['why']}")


def main():
    a = common.args()
    ck = Check(PROP, "model_checking", a.tier, a.seed)
    try:
        if a.replay:
            replay_file(a.replay, ck)
        else:
            run(a.tier, a.seed, ck)
    except tlc.TLCFailure as e:
        return machinery_failure(PROP, str(e))
    return ck.finish(rule="cases = project shapes of spec/Pages.tla (which entity kinds exist, 0/1/2 of each) x option sets {search, graph, proc_internals, "
                          "display, sort, page_dir, incl_src, max_frontpage_items}; every link of every generated page is crawled, before and after moving "
                          "the tree; every case is non-trivial (a distinct shape/option pair)", exhaustive=False)


if __name__ == "__main__":
    sys.exit(main())
