"""pytest plugin (harness side, nothing in /repo changes): record every free-form FortranReader run that the
repository's own test-suite performs, for validation against spec/FreeForm_Trace.tla.

    cd /repo && FORD_VERIF_TRACE=1 VERIF_TRACE_OUT=/path/out.json PYTHONPATH=/verif \
        /venv/bin/python -m pytest -p vlib.pytest_traces ...

One record per reader: marks, physical lines fed, items yielded (a line handed back with pass_back is not counted
twice), error class if the reader raised.
"""
from __future__ import annotations
import json
import os

RECORDS: list = []


class _LoggingIter:
    def __init__(self, it, log):
        self._it = iter(it)
        self._log = log

    def __iter__(self):
        return self

    def __next__(self):
        line = next(self._it)
        self._log.append(line)
        return line

    def close(self):
        c = getattr(self._it, "close", None)
        if c:
            c()

    def __getattr__(self, name):
        return getattr(self._it, name)


def _install():
    import ford.reader as fr
    if getattr(fr.FortranReader, "_verif_traced", False):
        return
    fr.FortranReader._verif_traced = True
    orig_init = fr.FortranReader.__init__
    orig_next = fr.FortranReader.__next__
    orig_pb = fr.FortranReader.pass_back

    def init(self, filename, docmark="!", predocmark="", docmark_alt="", predocmark_alt="", fixed=False, *a, **kw):
        orig_init(self, filename, docmark, predocmark, docmark_alt, predocmark_alt, fixed, *a, **kw)
        pre = bool(kw.get("preprocessor") or (len(a) > 1 and a[1]))
        rec = {"file": str(filename), "marks": {"doc": docmark, "pre": predocmark, "docalt": docmark_alt, "prealt": predocmark_alt},
               "fixed": bool(fixed), "preprocessed": pre, "fed": [], "yields": [], "err": "", "done": False}
        self._verif_rec = rec
        if not fixed:
            self.reader = _LoggingIter(self.reader, rec["fed"])
        RECORDS.append(rec)
    fr.FortranReader.__init__ = init

    def nxt(self):
        rec = getattr(self, "_verif_rec", None)
        try:
            item = orig_next(self)
        except StopIteration:
            if rec is not None:
                rec["done"] = True
            raise
        except Exception as ex:
            if rec is not None:
                rec["err"] = f"{type(ex).__name__}: {str(ex)[:120]}"
                rec["done"] = True
            raise
        if rec is not None:
            rec["yields"].append(item)
        return item
    fr.FortranReader.__next__ = nxt

    def pass_back(self, line):
        rec = getattr(self, "_verif_rec", None)
        if rec is not None and rec["yields"] and rec["yields"][-1] == line:
            rec["yields"].pop()
        elif rec is not None:
            rec["passback_mismatch"] = True
        return orig_pb(self, line)
    fr.FortranReader.pass_back = pass_back


def pytest_configure(config):
    if os.environ.get("FORD_VERIF_TRACE") == "1":
        _install()


def pytest_sessionfinish(session, exitstatus):
    out = os.environ.get("VERIF_TRACE_OUT")
    if out and os.environ.get("FORD_VERIF_TRACE") == "1":
        with open(out, "w") as f:
            json.dump({"records": RECORDS}, f)
