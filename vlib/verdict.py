"""Verdicts, known findings, replay files and evidence files (DESIGN.md 2.4, 9, 11)."""
from __future__ import annotations
import hashlib
import json
import os
import sys
import time
from pathlib import Path

ROOT = Path(__file__).resolve().parent.parent
EVIDENCE_DIR = ROOT / "evidence"
REPLAY_DIR = ROOT / "replays"
KNOWN_FILE = ROOT / "known_findings.json"


def load_known(prop: str):
    """Open findings of `prop` (id -> entry).  `fixed:` entries suppress nothing."""
    if not KNOWN_FILE.exists():
        return {}
    with open(KNOWN_FILE) as f:
        data = json.load(f)
    return {e["id"]: e for e in data.get("findings", []) if e["property"] == prop and e.get("status") == "open"}


class Check:
    """Accumulates the outcome of one check run and writes the evidence file."""

    def __init__(self, prop: str, level: str, tier: str | None = None, seed: int | None = None):
        self.prop = prop
        self.level = level
        self.tier = tier or os.environ.get("VERIF_TIER", "quick")
        self.seed = int(seed if seed is not None else os.environ.get("VERIF_SEED", "0") or 0)
        self.t0 = time.time()
        self.known = load_known(prop)
        self.known_hits: dict[str, int] = {}
        self.violations = 0
        self.evaluations = 0
        self.nontrivial: set = set()
        self.samples: list = []
        self.coverage: dict = {}
        self.assumptions: list[str] = []
        self.notes: dict = {}
        self._printed_known: set = set()
        self._viol_keys: set = set()
        self.max_violation_files = 25

    # ---- accounting -------------------------------------------------------
    def count(self, n=1):
        self.evaluations += n

    def nontrivial_case(self, key):
        self.nontrivial.add(key)

    def sample(self, case, limit=6):
        if len(self.samples) < limit:
            self.samples.append(case)

    # ---- verdicts ---------------------------------------------------------
    def known_finding(self, fid: str, what: str | None = None):
        """Record that open finding `fid` was observed.  Returns False if fid is not listed/open."""
        if fid not in self.known:
            return False
        self.known_hits[fid] = self.known_hits.get(fid, 0) + 1
        if fid not in self._printed_known:
            self._printed_known.add(fid)
            print(f"KNOWN-FINDING: property={self.prop} {fid}: {what or self.known[fid].get('what', '')}", flush=True)
        return True

    def violation(self, kind: str, case, expected=None, observed=None, detail: str = "", extra=None):
        """Write a replay file and print the VIOLATION line."""
        rec = {"property": self.prop, "kind": kind, "case": case, "expected": expected,
               "observed": observed, "detail": detail, "seed": self.seed, "tier": self.tier}
        if extra:
            rec.update(extra)
        blob = json.dumps(rec, sort_keys=True, default=str)
        key = hashlib.sha1(blob.encode()).hexdigest()[:16]
        self.violations += 1
        if key in self._viol_keys:
            return None
        self._viol_keys.add(key)
        if len(self._viol_keys) > self.max_violation_files:
            return None
        d = REPLAY_DIR / self.prop
        d.mkdir(parents=True, exist_ok=True)
        path = d / f"{key}.json"
        with open(path, "w") as f:
            json.dump(rec, f, indent=1, default=str)
        short = detail.replace("\n", " ")[:300]
        print(f"VIOLATION property={self.prop} replay={path}  [{kind}] {short}", flush=True)
        return str(path)

    # ---- finish -----------------------------------------------------------
    def finish(self, rule: str, extra_coverage: dict | None = None, exhaustive: bool | None = None) -> int:
        cov = dict(self.coverage)
        cov["evaluations"] = int(self.evaluations)
        cov["distinct_nontrivial"] = len(self.nontrivial)
        cov["rule"] = rule
        cov["samples"] = self.samples if self.samples else ["(no case reached)"]
        if exhaustive is not None:
            cov["exhaustive"] = bool(exhaustive)
        if extra_coverage:
            cov.update(extra_coverage)
        cov["known_findings_observed"] = dict(self.known_hits)
        for k in ("states", "transitions", "traces_validated_against_impl"):
            if k in cov:
                cov[k] = int(cov[k])
        ev = {"property_id": self.prop, "tier": self.tier if self.tier in ("quick", "thorough") else "quick",
              "seed": self.seed, "level": self.level, "coverage": cov,
              "assumptions": self.assumptions, "wall_s": round(time.time() - self.t0, 2),
              "violations": int(self.violations)}
        if self.notes:
            ev["notes"] = self.notes
        EVIDENCE_DIR.mkdir(exist_ok=True)
        with open(EVIDENCE_DIR / f"{self.prop}.json", "w") as f:
            json.dump(ev, f, indent=1, default=str)
        status = "VIOLATIONS" if self.violations else "ok"
        print(f"[{self.prop}] {status}: evaluations={self.evaluations} nontrivial={len(self.nontrivial)} "
              f"violations={self.violations} known={dict(self.known_hits)} wall={ev['wall_s']}s", flush=True)
        return 1 if self.violations else 0


def machinery_failure(prop: str, msg: str) -> int:
    print(f"MACHINERY-FAILURE property={prop}: {msg}", file=sys.stderr, flush=True)
    return 2
