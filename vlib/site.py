"""Full FORD runs on a rendered project directory and projections of the generated site."""
from __future__ import annotations
import contextlib
import hashlib
import io
import json
import os
import pathlib
import posixpath
import subprocess
import sys
import urllib.parse

from . import fordrun

REPO = os.environ.get("VERIF_REPO", "/repo")


def project_file_text(meta: dict, body: str = "") -> str:
    lines = ["---"]
    for k, v in meta.items():
        if isinstance(v, (list, tuple)):
            if not v:
                continue
            lines.append(f"{k}: {v[0]}")
            lines += [f"    {x}" for x in v[1:]]
        elif isinstance(v, bool):
            lines.append(f"{k}: {'true' if v else 'false'}")
        else:
            lines.append(f"{k}: {v}")
    lines.append("---")
    return "\n".join(lines) + "\n\n" + body + "\n"


DEFAULT_META = {"project": "verif", "src_dir": "./src", "output_dir": "./doc", "preprocess": False,
                "parallel": 0, "quiet": False, "search": False, "graph": False, "dbg": True}


CAPTURED = {}


def _install_capture():
    """Harness-side wrapper (no change to /repo): remember the Documentation object and its project."""
    import ford.output
    if getattr(ford.output.Documentation, "_verif_wrapped", False):
        return
    orig = ford.output.Documentation.__init__

    def wrapped(self, data, proj_docs, project, pagetree):
        CAPTURED["project"] = project
        CAPTURED["docs"] = self
        CAPTURED["pagetree"] = pagetree
        return orig(self, data, proj_docs, project, pagetree)

    ford.output.Documentation.__init__ = wrapped
    ford.output.Documentation._verif_wrapped = True


def run_inproc(root: str, meta: dict, body: str = "", name="proj.md", cwd_other: str | None = None):
    """Run FORD in this process on <root>/<name> (as `ford proj.md` would from cwd=root).
    Returns (ok, stdout_text, exception_or_None).  site.CAPTURED holds project/docs afterwards."""
    import ford
    _install_capture()
    CAPTURED.clear()
    m = dict(DEFAULT_META)
    m.update(meta)
    text = project_file_text(m, body)
    with open(os.path.join(root, name), "w") as f:
        f.write(text)
    fordrun.fresh_names()
    buf = io.StringIO()
    cwd = os.getcwd()
    os.chdir(cwd_other or root)          # cwd_other: as `ford <root>/proj.md` started from another directory
    err = None
    try:
        with contextlib.redirect_stdout(buf), contextlib.redirect_stderr(buf):
            proj_docs, proj_data = ford.load_settings(text, pathlib.Path(root), name)
            proj_data, proj_docs = ford.parse_arguments({"project_file": _Named(os.path.join(root, name) if cwd_other else name)}, proj_docs, proj_data, pathlib.Path(root))
            ford.main(proj_data, proj_docs)
    except SystemExit as ex:
        err = ex if ex.code not in (0, None) else None
    except BaseException as ex:  # noqa: BLE001 - FORD failures are observations
        err = ex
    finally:
        os.chdir(cwd)
    return err is None, buf.getvalue(), err


class _Named:
    def __init__(self, name):
        self.name = name


def run_cli(root: str, meta: dict, body: str = "", name="proj.md", hashseed="0", extra_args=(), env_extra=None, timeout=300):
    m = dict(DEFAULT_META)
    m.update(meta)
    with open(os.path.join(root, name), "w") as f:
        f.write(project_file_text(m, body))
    env = dict(os.environ)
    env.update({"PYTHONPATH": REPO, "PYTHONHASHSEED": str(hashseed), "FORD_DEBUGGING": "1", "PYTHONDONTWRITEBYTECODE": "1"})
    if env_extra:
        env.update(env_extra)
    p = subprocess.run([sys.executable, "-m", "ford", name, *extra_args], cwd=root, env=env, capture_output=True, text=True, timeout=timeout)
    return p.returncode, p.stdout + p.stderr


def tree_hashes(outdir: str) -> dict:
    out = {}
    for dp, dn, fn in os.walk(outdir):
        for f in fn:
            p = os.path.join(dp, f)
            rel = os.path.relpath(p, outdir)
            if os.path.islink(p):
                out[rel] = "link:" + os.readlink(p)
            else:
                with open(p, "rb") as fh:
                    out[rel] = hashlib.sha1(fh.read()).hexdigest()
    return out


class Page:
    __slots__ = ("rel", "ids", "links", "text", "soup")

    def __init__(self, rel, ids, links, text, soup=None):
        self.rel, self.ids, self.links, self.text, self.soup = rel, ids, links, text, soup


def parse_page(outdir: str, rel: str, keep_soup=False) -> Page:
    from bs4 import BeautifulSoup
    with open(os.path.join(outdir, rel), "rb") as f:
        soup = BeautifulSoup(f.read(), "html.parser")
    ids = [t.get("id") for t in soup.find_all(id=True)]
    ids += [t.get("name") for t in soup.find_all("a", attrs={"name": True}) if t.get("id") is None]
    links = []
    for t in soup.find_all(True):
        for attr in ("href", "src", "xlink:href"):
            v = t.get(attr)
            if v is not None:
                links.append((t.name, attr, v))
    return Page(rel, ids, links, soup.get_text(" "), soup if keep_soup else None)


def html_files(outdir: str):
    res = []
    for dp, dn, fn in os.walk(outdir):
        for f in fn:
            if f.endswith(".html"):
                res.append(os.path.relpath(os.path.join(dp, f), outdir))
    return sorted(res)


EXTERNAL_SCHEMES = ("http:", "https:", "mailto:", "javascript:", "data:", "ftp:", "//")


def link_problems(outdir: str, pages=None, allow_external=True):
    """Every internal URL must be relative, resolve to an existing file below outdir, and its
    fragment must be an id in that file.  Returns a list of problem dicts."""
    outdir = os.path.abspath(outdir)
    pages = pages or {rel: parse_page(outdir, rel) for rel in html_files(outdir)}
    idcache = {rel: set(p.ids) for rel, p in pages.items()}
    problems = []
    for rel, p in pages.items():
        base = posixpath.dirname(rel)
        for tag, attr, url in p.links:
            u = url.strip()
            if not u or u.startswith(EXTERNAL_SCHEMES):
                continue
            if u.startswith("#"):
                frag = urllib.parse.unquote(u[1:])
                if frag and frag not in idcache[rel] and not _js_target(tag, frag):
                    problems.append({"page": rel, "url": url, "why": "fragment not on page"})
                continue
            parts = urllib.parse.urlsplit(u)
            path = urllib.parse.unquote(parts.path)
            if parts.scheme or path.startswith("/"):
                problems.append({"page": rel, "url": url, "why": "absolute URL / path"})
                continue
            tgt = posixpath.normpath(posixpath.join(base, path))
            if tgt.startswith(".."):
                problems.append({"page": rel, "url": url, "why": "leaves the output directory"})
                continue
            full = os.path.join(outdir, tgt)
            if not os.path.exists(full):
                problems.append({"page": rel, "url": url, "why": f"target {tgt} does not exist"})
                continue
            if parts.fragment and tgt.endswith(".html"):
                frag = urllib.parse.unquote(parts.fragment)
                if tgt not in idcache:
                    idcache[tgt] = set(parse_page(outdir, tgt).ids)
                if frag not in idcache[tgt]:
                    problems.append({"page": rel, "url": url, "why": f"fragment #{frag} not in {tgt}"})
    return problems


def _js_target(tag, frag):
    return False


def search_db(outdir: str):
    p = os.path.join(outdir, "search", "search_database.json")
    if not os.path.exists(p):
        return None
    with open(p, encoding="utf-8") as f:
        text = f.read()
    if text.startswith("var tipuesearch ="):
        text = text[len("var tipuesearch ="):]
    return json.loads(text.strip().rstrip(";"))
