"""Harness-side shim (never part of /repo): loaded by a child `python -m ford` through PYTHONPATH.

Records every mutating file-system call (resolved absolute path) to $VERIF_FS_LOG and, if
$VERIF_FS_FAIL_AT = k, makes the k-th mutating call raise OSError(EIO) *before* it acts.
Only active when FORD_VERIF_TRACE=1."""
import os
import sys

if os.environ.get("FORD_VERIF_TRACE") == "1" and os.environ.get("VERIF_FS_LOG"):
    import builtins
    import errno
    import io
    import json

    _LOG = os.environ["VERIF_FS_LOG"]
    _FAIL = int(os.environ.get("VERIF_FS_FAIL_AT", "0") or 0)
    _state = {"n": 0, "busy": False}
    _real_open = builtins.open
    _os_open = os.open
    _logfd = _os_open(_LOG, os.O_WRONLY | os.O_CREAT | os.O_APPEND, 0o644)

    def _abs(path, dir_fd=None):
        try:
            p = os.fspath(path)
            if isinstance(p, bytes):
                p = os.fsdecode(p)
            if dir_fd is not None and not os.path.isabs(p):
                base = os.readlink(f"/proc/self/fd/{dir_fd}")
                p = os.path.join(base, p)
            p = os.path.abspath(p)
            # resolve the directory part only: the final component is what the call acts on
            return os.path.join(os.path.realpath(os.path.dirname(p)), os.path.basename(p))
        except Exception as ex:  # noqa: BLE001
            return f"?{path!r}:{ex}"

    def _note(op, path, dir_fd=None, extra=None):
        if _state["busy"]:
            return
        _state["busy"] = True
        try:
            _state["n"] += 1
            k = _state["n"]
            rec = {"seq": k, "op": op, "path": _abs(path, dir_fd), "pid": os.getpid()}
            if extra:
                rec["to"] = extra
            fail = (_FAIL == k)
            rec["failed"] = fail
            os.write(_logfd, (json.dumps(rec) + "\n").encode())
        finally:
            _state["busy"] = False
        if fail:
            raise OSError(errno.EIO, "verif: injected file-system failure", str(path))

    def _wrap(mod, name, op, two=False):
        orig = getattr(mod, name)

        def f(*a, **kw):
            if two:
                _note(op, a[0], kw.get("src_dir_fd"), _abs(a[1], kw.get("dst_dir_fd")))
                _note(op + "-dst", a[1], kw.get("dst_dir_fd"))
            else:
                _note(op, a[0] if a else kw.get("path"), kw.get("dir_fd"))
            return orig(*a, **kw)

        f.__name__ = name
        f.__wrapped__ = orig
        setattr(mod, name, f)

    for _n in ("mkdir", "rmdir", "unlink", "remove", "chmod", "utime", "truncate", "chown", "mkfifo"):
        if hasattr(os, _n):
            _wrap(os, _n, _n)
    for _n in ("rename", "replace", "symlink", "link"):
        _wrap(os, _n, _n, two=True)

    def _writes_mode(mode):
        return any(c in mode for c in "wax+")

    def _open(file, mode="r", *a, **kw):
        if isinstance(file, (str, bytes, os.PathLike)) and _writes_mode(mode):
            _note("open-" + mode, file)
        return _real_open(file, mode, *a, **kw)

    builtins.open = _open
    io.open = _open

    def _osopen(path, flags, mode=0o777, *, dir_fd=None):
        if flags & (os.O_WRONLY | os.O_RDWR | os.O_CREAT | os.O_TRUNC | os.O_APPEND):
            _note("os.open", path, dir_fd)
        return _os_open(path, flags, mode, dir_fd=dir_fd)

    os.open = _osopen
