"""Thin driver around TLC: model checking, state dumps, simulation, trace validation."""
from __future__ import annotations
import os
import re
import shutil
import subprocess
import tempfile
import time
from dataclasses import dataclass, field
from pathlib import Path

from . import tlaval

SPEC_DIR = Path(__file__).resolve().parent.parent / "spec"
JAR = "/opt/veriftools/tla/tla2tools.jar:/opt/veriftools/tla/CommunityModules-deps.jar"


class TLCFailure(Exception):
    """TLC itself failed (parse error, evaluation error, timeout): machinery failure."""


@dataclass
class TLCResult:
    ok: bool                      # no invariant/property violation, no error
    generated: int = 0
    distinct: int = 0
    depth: int = 0
    violated: str | None = None   # name of violated invariant / property
    output: str = ""
    coverage: dict = field(default_factory=dict)   # action -> (distinct, taken)
    wall_s: float = 0.0
    dump_file: str | None = None
    counterexample: list = field(default_factory=list)  # list of state dicts
    printed: list = field(default_factory=list)


_STATS = re.compile(r"(\d+) states generated, (\d+) distinct states found")
_DEPTH = re.compile(r"depth of the complete state graph search is (\d+)")
_VIOL = re.compile(r"Invariant (\S+) is violated|Action property (\S+) is violated|Temporal properties were violated")
_COV = re.compile(r"^<(\w+) line \d+, col \d+ to line \d+, col \d+ of module (\w+)>: (\d+):(\d+)", re.M)


def scratch_dir(prefix="verif-tlc-") -> str:
    base = os.environ.get("VERIF_SCRATCH", tempfile.gettempdir())
    return tempfile.mkdtemp(prefix=prefix, dir=base)


def run(spec: str, cfg: str, *, workers: int | str = "auto", dump: str | None = None,
        simulate: str | None = None, depth: int | None = None, seed: int | None = None,
        timeout: int = 1800, coverage: bool = False, env: dict | None = None,
        deadlock: bool = False, java_opts: str | None = None, cwd: str | None = None,
        keep_output=True, extra: list | None = None) -> TLCResult:
    """Run TLC on spec (module file name in SPEC_DIR or absolute) with cfg."""
    spec_path = Path(spec)
    if not spec_path.is_absolute():
        spec_path = SPEC_DIR / spec
    cfg_path = Path(cfg)
    if not cfg_path.is_absolute():
        cfg_path = SPEC_DIR / cfg
    meta = scratch_dir()
    cmd = ["java", "-XX:+UseParallelGC", "-Xmx8g", "-Xss512m", f"-Djava.io.tmpdir={meta}", f"-DTLA-Library={SPEC_DIR}"]
    if java_opts:
        cmd += java_opts.split()
    cmd += ["-cp", JAR, "tlc2.TLC", "-metadir", meta, "-noGenerateSpecTE",
            "-workers", str(workers), "-config", str(cfg_path)]
    if not deadlock:
        cmd += ["-deadlock"]
    if coverage:
        cmd += ["-coverage", "1"]
    if dump:
        cmd += ["-dump", dump]
    if simulate is not None:
        cmd += ["-simulate", simulate] if simulate else ["-simulate"]
    if depth is not None:
        cmd += ["-depth", str(depth)]
    if seed is not None:
        cmd += ["-seed", str(seed)]
    if extra:
        cmd += extra
    cmd += [str(spec_path)]
    e = dict(os.environ)
    e.pop("JAVA_TOOL_OPTIONS", None)
    if env:
        e.update(env)
    t0 = time.time()
    try:
        p = subprocess.run(cmd, capture_output=True, text=True, timeout=timeout, env=e,
                           cwd=cwd or str(spec_path.parent))
    except subprocess.TimeoutExpired as ex:
        shutil.rmtree(meta, ignore_errors=True)
        raise TLCFailure(f"TLC timeout after {timeout}s on {spec_path.name}/{cfg_path.name}") from ex
    finally:
        pass
    shutil.rmtree(meta, ignore_errors=True)
    out = p.stdout + p.stderr
    res = TLCResult(ok=True, output=out if keep_output else out[-4000:], wall_s=time.time() - t0)
    for m in _STATS.finditer(out):
        res.generated, res.distinct = int(m.group(1)), int(m.group(2))
    m = _DEPTH.search(out)
    if m:
        res.depth = int(m.group(1))
    for m in _COV.finditer(out):
        res.coverage[m.group(1)] = (int(m.group(3)), int(m.group(4)))
    m = _VIOL.search(out)
    if m:
        res.ok = False
        res.violated = m.group(1) or m.group(2) or "TemporalProperty"
        res.counterexample = _parse_trace(out)
    elif (mp := re.search(r"Error: Postcondition (\w+) .* is false", out)) and out.count("Error:") == 1:
        res.ok = False
        res.violated = "Postcondition:" + mp.group(1)
    elif "Error:" in out or p.returncode not in (0,):
        # everything else that is not a clean finish is a machinery failure
        if "Model checking completed. No error has been found" not in out and \
           "Finished in" not in out or "Error:" in out:
            raise TLCFailure(f"TLC error on {spec_path.name}/{cfg_path.name} (rc={p.returncode}):\n" + out[-1200:])
    if dump:
        res.dump_file = dump if dump.endswith(".dump") else dump + ".dump"
        if not os.path.exists(res.dump_file) and os.path.exists(dump):
            res.dump_file = dump
    return res


_TRACE_STATE = re.compile(r"^State (\d+): <([^>]*)>\n((?:.|\n)*?)(?=\n\n|\nState \d+:|\Z)", re.M)


def _parse_trace(out: str):
    states = []
    for m in _TRACE_STATE.finditer(out):
        try:
            st = tlaval.parse_state(m.group(3))
        except tlaval.ParseError:
            st = {"_raw": m.group(3)}
        st["_action"] = m.group(2).split(" line ")[0]
        states.append(st)
    return states


def read_dump(path: str):
    """Yield each state of a TLC dump file as a dict."""
    with open(path, "r") as f:
        text = f.read()
    for block in tlaval.split_dump(text):
        yield tlaval.parse_state(block)


def read_dump_blocks(path: str):
    with open(path, "r") as f:
        text = f.read()
    return list(tlaval.split_dump(text))


def sany(spec: str) -> None:
    spec_path = Path(spec)
    if not spec_path.is_absolute():
        spec_path = SPEC_DIR / spec
    p = subprocess.run(["java", "-cp", JAR, "tla2sany.SANY", str(spec_path)], capture_output=True,
                       text=True, cwd=str(spec_path.parent), timeout=300)
    out = p.stdout + p.stderr
    if p.returncode != 0 or "error" in out.lower().replace("errors: 0", ""):
        if "Semantic errors" in out or "Parse Error" in out or "Fatal" in out or p.returncode != 0:
            raise TLCFailure(f"SANY rejected {spec_path.name}:\n{out[-2000:]}")


def write_cfg(path: str, *, spec: str | None = "Spec", init: str | None = None, next_: str | None = None,
              constants: dict | None = None, invariants=(), properties=(), constraints=(),
              view: str | None = None, postcondition: str | None = None, symmetry: str | None = None,
              action_constraints=(), check_deadlock=False) -> str:
    """Write a TLC configuration file with literal constant values."""
    lines = []
    if init:
        lines += [f"INIT {init}", f"NEXT {next_}"]
    elif spec:
        lines.append(f"SPECIFICATION {spec}")
    if constants:
        lines.append("CONSTANTS")
        for k, v in constants.items():
            if isinstance(v, str) and v.startswith("<-"):
                lines.append(f"  {k} {v}")
            else:
                lines.append(f"  {k} = {v if isinstance(v, str) else tlaval.to_tla(v)}")
    for i in invariants:
        lines.append(f"INVARIANT {i}")
    for i in properties:
        lines.append(f"PROPERTY {i}")
    for i in constraints:
        lines.append(f"CONSTRAINT {i}")
    for i in action_constraints:
        lines.append(f"ACTION_CONSTRAINT {i}")
    if view:
        lines.append(f"VIEW {view}")
    if symmetry:
        lines.append(f"SYMMETRY {symmetry}")
    if postcondition:
        lines.append(f"POSTCONDITION {postcondition}")
    lines.append(f"CHECK_DEADLOCK {'TRUE' if check_deadlock else 'FALSE'}")
    with open(path, "w") as f:
        f.write("\n".join(lines) + "\n")
    return path


def make_model(scratch: str, base: str, constants: dict, name: str = "MC", **cfg_kw):
    """Write a wrapper module `name`.tla (EXTENDS base, constants as definitions) and its cfg
    into `scratch`.  `constants` maps constant name -> Python value or TLA+ expression string
    prefixed with '=' (verbatim).  Returns (module_path, cfg_path)."""
    defs = []
    subst = {}
    for k, v in constants.items():
        expr = v[1:] if isinstance(v, str) and v.startswith("=") else tlaval.to_tla(v)
        defs.append(f"const_{k} == {expr}")
        subst[k] = f"<- const_{k}"
    mod = os.path.join(scratch, f"{name}.tla")
    with open(mod, "w") as f:
        f.write(f"---- MODULE {name} ----\nEXTENDS {base}\n" + "\n".join(defs) + "\n====\n")
    cfg = os.path.join(scratch, f"{name}.cfg")
    write_cfg(cfg, constants=subst, **cfg_kw)
    return mod, cfg
