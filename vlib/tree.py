"""Canonical entity tree of a ford Project: the projection used by C01, C02 (pairs), C14 and C20.

Every fact is read through the attributes the templates use.  FORD's two encodings of one fact are
unified here (DESIGN.md section 8, Appendix A):
  * names compared case-insensitively (lower-cased), type keywords lower-cased with blanks removed
  * `parameter` / `optional` / `intent` given on the declaration (flags) or by statement (attribute list)
  * `dimension(...)` as attribute vs `name(...)` on the entity; an entity's own `*len` (kept by FORD after its dimensions) is its length
  * inherited components / bindings that correlate() prepends to a type are dropped (parent is not the type)
"""
from __future__ import annotations
import re


def _name(x):
    if x is None:
        return None
    if isinstance(x, str):
        return x.strip().lower()
    return (getattr(x, "name", None) or "").lower()


def _squash(s):
    return re.sub(r"\s+", "", str(s)).lower() if s is not None else None


def _squash_code(s):
    """Blanks outside character literals are not significant, blanks (and case) inside them are."""
    if s is None:
        return None
    out, q = [], None
    for ch in str(s):
        if q:
            out.append(" " if ch == "\xa0" else ch)
            if ch == q:
                q = None
        elif ch in "'\"":
            q = ch
            out.append(ch)
        elif not ch.isspace():
            out.append(ch.lower())
    return "".join(out)


def _doc(e):
    d = getattr(e, "doc_list", None) or []
    if isinstance(d, str):
        d = [d]
    return " ".join(" ".join(x.split()) for x in d if x and x.strip()).strip()


def variable(v, with_doc=True):
    if isinstance(v, str):
        return {"k": "var", "name": v.lower(), "unresolved": True}
    attribs = []
    dims = _squash(getattr(v, "dimension", "") or "")
    strlen = _squash(getattr(v, "strlen", None))
    m = re.fullmatch(r"((?:\(.*\))?)\*(.+)", dims or "")
    if m:                       # `name*len` / `name(dims)*len`: FORD keeps the entity's own length next to its dimensions
        dims, strlen = m.group(1), m.group(2)
    for a in getattr(v, "attribs", []) or []:
        a = _squash(a)
        m = re.fullmatch(r"dimension(\(.*\))", a)
        if m:
            dims = dims or m.group(1)
        else:
            attribs.append(a)
    parameter = bool(getattr(v, "parameter", False)) or "parameter" in attribs
    optional = bool(getattr(v, "optional", False)) or "optional" in attribs
    attribs = sorted(set(a for a in attribs if a not in ("parameter", "optional")))
    proto = getattr(v, "proto", None)
    out = {
        "k": "var", "name": _name(v),
        "type": _squash(getattr(v, "vartype", None)),
        "kind": _squash(getattr(v, "kind", None)),
        "len": strlen,
        "proto": _name(proto[0]) if proto else None,
        "attribs": attribs, "dims": dims or "",
        "intent": _squash(getattr(v, "intent", "") or ""),
        "optional": optional, "parameter": parameter,
        "initial": _squash_code(getattr(v, "initial", None)),
        "perm": getattr(v, "permission", None),
    }
    if with_doc:
        out["doc"] = _doc(v)
    return out


def _vars(lst, owner=None):
    out = []
    for v in lst or []:
        if owner is not None and not isinstance(v, str) and getattr(v, "parent", owner) is not owner:
            continue       # inherited component prepended by correlate()
        out.append(variable(v))
    return out


def boundproc(b):
    return {"k": "binding", "name": _name(b), "generic": bool(getattr(b, "generic", False)), "deferred": bool(getattr(b, "deferred", False)),
            "attribs": sorted(_squash(a) for a in getattr(b, "attribs", []) or []), "proto": _name(getattr(b, "proto", None)),
            "bindings": [_name(x) for x in getattr(b, "bindings", []) or []], "perm": getattr(b, "permission", None), "doc": _doc(b)}


def dtype(t):
    return {"k": "type", "name": _name(t), "extends": _name(getattr(t, "extends", None)),
            "attribs": sorted(_squash(a) for a in getattr(t, "attribs", []) or []), "sequence": bool(getattr(t, "sequence", False)),
            "components": _vars(t.variables, owner=t),
            "bindings": [boundproc(b) for b in t.boundprocs if getattr(b, "parent", t) is t],
            "finals": [_name(f) for f in getattr(t, "finalprocs", []) or []],
            "perm": getattr(t, "permission", None), "doc": _doc(t)}


def _calls(u):
    out = []
    for c in getattr(u, "calls", []) or []:
        if isinstance(c, (list, tuple)):
            out.append("%".join(c))
        else:
            out.append(_name(c))
    return sorted(set(x for x in out if x))


def _uses(u):
    out = []
    for x in getattr(u, "uses", []) or []:
        if isinstance(x, (list, tuple)):
            x = x[0]
        out.append(_name(x))
    return sorted(set(o for o in out if o))


def procedure(p):
    out = {"k": "proc", "name": _name(p), "proctype": (getattr(p, "proctype", "") or "").lower(),
           "args": [variable(a) if not isinstance(a, str) else {"k": "var", "name": a.lower(), "unresolved": True} for a in getattr(p, "args", []) or []],
           "attribs": sorted(_squash(a) for a in getattr(p, "attribs", []) or []),
           "bindC": _squash(getattr(p, "bindC", None)),
           "module": bool(getattr(p, "module", False)),
           "perm": getattr(p, "permission", None), "doc": _doc(p), "calls": _calls(p), "uses": _uses(p)}
    rv = getattr(p, "retvar", None)
    if rv is not None:
        out["result"] = variable(rv) if not isinstance(rv, str) else {"k": "var", "name": rv.lower(), "unresolved": True}
    out.update(_contents(p))
    return out


def interface(i):
    out = {"k": "interface", "name": _name(i), "generic": bool(getattr(i, "generic", False)), "abstract": bool(getattr(i, "abstract", False)),
           "perm": getattr(i, "permission", None), "doc": _doc(i)}
    if hasattr(i, "procedure"):      # FortranModuleProcedureInterface: one explicit / abstract interface body
        out["procedure"] = procedure(i.procedure)
    else:
        out["procedures"] = [procedure(p) for p in list(getattr(i, "subroutines", [])) + list(getattr(i, "functions", []))]
        out["modprocs"] = sorted(_name(m) for m in getattr(i, "modprocs", []) or [])
    return out


def _contents(u):
    out = {}
    if hasattr(u, "variables"):
        out["variables"] = _vars(u.variables)
    if hasattr(u, "types"):
        out["types"] = [dtype(t) for t in u.types]
    subs = list(getattr(u, "subroutines", []) or []) + list(getattr(u, "functions", []) or []) \
        + list(getattr(u, "modsubroutines", []) or []) + list(getattr(u, "modfunctions", []) or []) + list(getattr(u, "modprocedures", []) or [])
    if subs or hasattr(u, "subroutines"):
        out["procedures"] = sorted((procedure(p) for p in subs), key=lambda d: (d["name"], d["proctype"]))
    if hasattr(u, "interfaces"):
        out["interfaces"] = sorted((interface(i) for i in u.interfaces), key=lambda d: (d["name"] or "", str(d.get("procedure", {}).get("name"))))
    if hasattr(u, "absinterfaces"):
        out["absinterfaces"] = sorted((interface(i) for i in u.absinterfaces), key=lambda d: str(d.get("procedure", {}).get("name")))
    if getattr(u, "enums", None):
        out["enums"] = [{"k": "enum", "enumerators": [{"name": _name(v), "value": _squash(v.initial)} for v in e.variables]} for e in u.enums]
    if getattr(u, "common", None):
        out["common"] = sorted(({"k": "common", "name": _name(c), "variables": [_name(v) for v in c.variables]} for c in u.common), key=lambda d: d["name"])
    if getattr(u, "namelists", None):
        out["namelists"] = sorted(({"k": "namelist", "name": _name(n), "variables": [_name(v) for v in n.variables]} for n in u.namelists), key=lambda d: d["name"])
    return out


def unit(u, kind):
    out = {"k": kind, "name": _name(u), "doc": _doc(u), "uses": _uses(u), "perm": getattr(u, "permission", None)}
    if kind == "program":
        out["calls"] = _calls(u)
    if kind == "submodule":
        out["ancestor"] = _name(getattr(u, "ancestor_module", None))
        out["parent_submodule"] = _name(getattr(u, "parent_submodule", None))
    out.update(_contents(u))
    return out


def source_file(f):
    return {"k": "file", "name": f.name, "doc": _doc(f),
            "modules": [unit(m, "module") for m in f.modules],
            "submodules": [unit(m, "submodule") for m in f.submodules],
            "programs": [unit(m, "program") for m in f.programs],
            "procedures": [procedure(p) for p in list(f.functions) + list(f.subroutines)],
            "blockdata": [unit(b, "blockdata") for b in f.blockdata]}


def project_tree(project, with_urls=False):
    files = sorted((source_file(f) for f in project.files), key=lambda d: d["name"])
    return {"files": files}


def strip(tree, keys=("doc",)):
    """Copy of a tree without the given keys (e.g. docs, when only the structure matters)."""
    if isinstance(tree, dict):
        return {k: strip(v, keys) for k, v in tree.items() if k not in keys}
    if isinstance(tree, list):
        return [strip(v, keys) for v in tree]
    return tree


def diff(a, b, path=""):
    """First few differences between two canonical trees, as readable strings."""
    out = []
    if type(a) != type(b):
        return [f"{path}: {a!r} != {b!r}"]
    if isinstance(a, dict):
        for k in sorted(set(a) | set(b)):
            if k not in a:
                out.append(f"{path}/{k}: missing on the left, right has {b[k]!r}"[:300])
            elif k not in b:
                out.append(f"{path}/{k}: left has {a[k]!r}, missing on the right"[:300])
            else:
                out += diff(a[k], b[k], f"{path}/{k}")
            if len(out) > 8:
                break
    elif isinstance(a, list):
        if len(a) != len(b):
            na = [x.get("name") if isinstance(x, dict) else x for x in a]
            nb = [x.get("name") if isinstance(x, dict) else x for x in b]
            out.append(f"{path}: {len(a)} items {na} vs {len(b)} items {nb}"[:300])
        else:
            for i, (x, y) in enumerate(zip(a, b)):
                tag = x.get("name", i) if isinstance(x, dict) else i
                out += diff(x, y, f"{path}[{tag}]")
                if len(out) > 8:
                    break
    elif a != b:
        out.append(f"{path}: {a!r} != {b!r}")
    return out


def entity_urls(project):
    """name-qualified entity -> URL, for differential checks on page naming."""
    out = {}

    def visit(e, prefix):
        key = f"{prefix}/{getattr(e, 'obj', '?')}:{(_name(e) or '')}"
        try:
            out[key] = e.get_url()
        except Exception as ex:  # noqa: BLE001
            out[key] = f"error:{type(ex).__name__}"
        for coll in ("modules", "submodules", "programs", "functions", "subroutines", "types", "interfaces", "absinterfaces", "blockdata",
                     "modprocedures", "variables", "boundprocs", "namelists"):
            for c in getattr(e, coll, []) or []:
                if not isinstance(c, str) and getattr(c, "parent", e) is e:
                    visit(c, key)
    for f in project.files:
        visit(f, "")
    return out
