"""Process pool for replaying cases into FORD (fork, 16 workers, quiet workers)."""
from __future__ import annotations
import multiprocessing as mp
import os
import signal
import sys


def _init():
    os.environ.setdefault("FORD_DEBUGGING", "1")
    sys.stdout = open(os.devnull, "w")
    sys.stderr = open(os.devnull, "w")
    signal.signal(signal.SIGINT, signal.SIG_IGN)


class Timeout(Exception):
    pass


def _alarm(signum, frame):
    raise Timeout()


def with_watchdog(fn, seconds, *a, **kw):
    """Run fn under a SIGALRM watchdog (main thread of a worker process)."""
    old = signal.signal(signal.SIGALRM, _alarm)
    signal.alarm(seconds)
    try:
        return fn(*a, **kw)
    finally:
        signal.alarm(0)
        signal.signal(signal.SIGALRM, old)


def run_isolated(fn, seconds, *a, **kw):
    """Run fn in a forked child and kill it hard after `seconds` (SIGALRM cannot interrupt a regular-expression match or any
    other long C call).  Returns fn's (picklable) result; raises Timeout, or the child's exception text as RuntimeError."""
    import pickle
    import select
    import time
    r, w = os.pipe()
    pid = os.fork()
    if pid == 0:                                    # child
        os.close(r)
        try:
            try:
                payload = ("ok", fn(*a, **kw))
            except BaseException as ex:  # noqa: BLE001
                payload = ("err", f"{type(ex).__name__}: {ex}")
            with os.fdopen(w, "wb") as f:
                pickle.dump(payload, f)
        finally:
            os._exit(0)
    os.close(w)
    deadline = time.time() + seconds
    chunks = []
    try:
        while True:
            left = deadline - time.time()
            if left <= 0:
                os.kill(pid, signal.SIGKILL)
                raise Timeout()
            ready, _, _ = select.select([r], [], [], min(left, 1.0))
            if ready:
                b = os.read(r, 1 << 20)
                if not b:
                    break
                chunks.append(b)
    finally:
        os.close(r)
        try:
            os.waitpid(pid, 0)
        except ChildProcessError:
            pass
    if not chunks:
        raise RuntimeError("isolated run died without a result")
    kind, val = pickle.loads(b"".join(chunks))
    if kind == "err":
        raise RuntimeError(val)
    return val


def pmap(fn, items, workers=None, chunksize=None):
    items = list(items)
    if not items:
        return []
    workers = workers or int(os.environ.get("VERIF_WORKERS", "16"))
    if workers <= 1 or len(items) < 4:
        return [fn(x) for x in items]
    if chunksize is None:
        chunksize = max(1, min(200, len(items) // (workers * 4) or 1))
    ctx = mp.get_context("fork")
    with ctx.Pool(workers, initializer=_init) as pool:
        return pool.map(fn, items, chunksize=chunksize)
