"""Process pool for replaying cases into FORD (fork, 16 workers, quiet workers)."""
from __future__ import annotations
import multiprocessing as mp
import os
import signal
import sys


def _init():
    os.environ.setdefault("FORD_DEBUGGING", "1")
    sys.stdout = open(os.devnull, "w")
    sys.stderr = open(os.devnull, "w")
    signal.signal(signal.SIGINT, signal.SIG_IGN)


class Timeout(Exception):
    pass


def _alarm(signum, frame):
    raise Timeout()


def with_watchdog(fn, seconds, *a, **kw):
    """Run fn under a SIGALRM watchdog (main thread of a worker process)."""
    old = signal.signal(signal.SIGALRM, _alarm)
    signal.alarm(seconds)
    try:
        return fn(*a, **kw)
    finally:
        signal.alarm(0)
        signal.signal(signal.SIGALRM, old)


def pmap(fn, items, workers=None, chunksize=None):
    items = list(items)
    if not items:
        return []
    workers = workers or int(os.environ.get("VERIF_WORKERS", "16"))
    if workers <= 1 or len(items) < 4:
        return [fn(x) for x in items]
    if chunksize is None:
        chunksize = max(1, min(200, len(items) // (workers * 4) or 1))
    ctx = mp.get_context("fork")
    with ctx.Pool(workers, initializer=_init) as pool:
        return pool.map(fn, items, chunksize=chunksize)
