"""Bind a recorded whole run (vlib/pipetrace.py) to spec/Pipeline.tla through spec/Pipeline_Trace.tla."""
from __future__ import annotations
import json
import os
import shutil

from . import tlc

PAGE_DIRS = ("lists/", "module/", "proc/", "type/", "program/", "sourcefile/", "interface/", "blockdata/", "namelist/")


def _fn(d: dict, default="<< >>") -> str:
    """TLA+ function literal from a dict with integer keys and TLA+ expression values."""
    if not d:
        return "=" + default
    return "=(" + " @@ ".join(f"{k} :> {v}" for k, v in sorted(d.items())) + ")"


def _set(xs) -> str:
    return "{" + ", ".join(str(x) for x in sorted(xs)) + "}"


def _s(x) -> str:
    return json.dumps(str(x))


def constants_and_trace(events, dev=()):
    """Returns (constants for make_model, list of trace lines, notes)."""
    files = []
    kind = {}
    units = {}
    deps, ranks = {}, {}
    ents = {}
    pages = {}
    atend = set()
    lines = []
    for e in events:
        ev = e["ev"]
        if ev == "discover":
            files = list(range(1, len(e["files"]) + 1))
        elif ev == "parse":
            f = e["file"]
            kind[f] = "valid" if (e["ok"] and not e["reported"]) else ("reports" if e["reported"] else "raises")
            lines.append({"ev": "parse", "file": f, "ok": bool(e["ok"])})
        elif ev == "startcorrelate":
            for u in e["units"]:
                units[u["unit"]] = u
            lines.append({"ev": ev})
        elif ev == "deps":
            deps = {int(k): v for k, v in e["deps"].items()}
            ranks = {int(k): v for k, v in e["ranks"].items()}
            lines.append({"ev": ev})
        elif ev in ("correlate", "prune"):
            lines.append({"ev": ev, "unit": e["unit"]})
        elif ev == "name":
            if e["first"]:
                ents[e["e"]] = {"file": e["file"], "key": (e["dir"], e["key"]), "rank": len(ents) + 1}
            lines.append({"ev": ev, "e": e["e"], "n": e["n"], "first": bool(e["first"])})
        elif ev == "page":
            if e["path"] not in pages:
                pages[e["path"]] = {"id": len(pages) + 1, "file": e["file"]}
            lines.append({"ev": ev, "page": pages[e["path"]]["id"], "inwrite": bool(e["inwrite"])})
        elif ev == "wipe":
            lines.append({"ev": ev, "root": bool(e["root"])})
        elif ev == "end":
            for p in e["html"]:
                if p in pages:
                    atend.add(pages[p]["id"])
                elif p in ("index.html", "search.html") or p.startswith(PAGE_DIRS):
                    # an HTML file in a generated-pages directory that no page write produced (static pages may copy HTML files)
                    pages[p] = {"id": len(pages) + 1, "file": 0}
                    atend.add(pages[p]["id"])
            lines.append({"ev": ev, "atend": None})
        else:
            lines.append({"ev": ev})
    for ln in lines:
        if ln["ev"] == "end":
            ln["atend"] = [(i in atend) for i in range(1, len(pages) + 1)]
    for f in files:
        kind.setdefault(f, "valid")
    for u in units:
        deps.setdefault(u, [])
    consts = {
        "Files": "=" + _set(files),
        "Kind": _fn({f: _s(k) for f, k in kind.items() if f in files}),
        "Units": "=" + _set(units),
        "FileOf": _fn({u: d["file"] for u, d in units.items()}),
        "Class": _fn({u: d["cls"] for u, d in units.items()}),
        "UsesOf": _fn({u: _set(x for x in deps.get(u, []) if x in units) for u in units}),
        "Rank": _fn({u: (ranks.get(u, d["pos"]) if d["cls"] == 0 else d["pos"]) for u, d in units.items()}),
        "Ents": "=" + _set(ents),
        "EFile": _fn({k: d["file"] for k, d in ents.items()}),
        "EKey": _fn({k: f"<<{_s(d['key'][0])}, {_s(d['key'][1])}>>" for k, d in ents.items()}),
        "NameRank": _fn({k: d["rank"] for k, d in ents.items()}),
        "Pages": "=" + _set(d["id"] for d in pages.values()),
        "PFile": _fn({d["id"]: d["file"] for d in pages.values()}),
        "Dev": frozenset(dev),
    }
    notes = {"files": len(files), "units": len(units), "entities": len(ents), "pages": len(pages), "events": len(lines),
             "kinds": sorted(set(kind.values()))}
    return consts, lines, notes


def validate(events, dev=(), timeout=600):
    """Run TLC on one recorded run.  Returns dict(accepted, consumed, events, next_event, violated, notes)."""
    consts, lines, notes = constants_and_trace(events, dev)
    d = tlc.scratch_dir("verif-pipe-")
    try:
        tf = os.path.join(d, "trace.json")
        with open(tf, "w") as f:
            json.dump({"events": lines}, f)
        mod, cfg = tlc.make_model(d, "Pipeline_Trace", consts, spec="TraceSpec", invariants=["TraceInv"], postcondition="TraceAccepted")
        res = tlc.run(mod, cfg, workers=1, env={"TRACE_FILE": tf}, timeout=timeout)
        consumed = max(0, (res.depth or 1) - 1)
        accepted = bool(res.ok) and consumed == len(lines)
        out = {"accepted": accepted, "consumed": consumed, "events": len(lines), "violated": res.violated,
               "next_event": lines[consumed] if consumed < len(lines) else None, "notes": notes}
        if not accepted:
            out["tail"] = res.output[-600:]
        return out
    finally:
        shutil.rmtree(d, ignore_errors=True)
