"""Bind a recorded whole run (vlib/pipetrace.py) to spec/Pipeline.tla through spec/Pipeline_Trace.tla."""
from __future__ import annotations
import json
import os
import shutil

from . import tlc

PAGE_DIRS = ("lists/", "module/", "proc/", "type/", "program/", "sourcefile/", "interface/", "blockdata/", "namelist/")


def _fn(d: dict, default="<< >>") -> str:
    """TLA+ function literal from a dict with integer keys and TLA+ expression values."""
    if not d:
        return "=" + default
    return "=(" + " @@ ".join(f"{k} :> {v}" for k, v in sorted(d.items())) + ")"


def _set(xs) -> str:
    return "{" + ", ".join(str(x) for x in sorted(xs)) + "}"


def _s(x) -> str:
    return json.dumps(str(x))


def constants_and_trace(events, dev=()):
    """Returns (constants for make_model, list of trace lines, notes)."""
    files = []
    kind = {}
    units = {}
    deps, ranks = {}, {}
    ents = {}
    pages = {}
    atend = set()
    lines = []
    for e in events:
        ev = e["ev"]
        if ev == "discover":
            files = list(range(1, len(e["files"]) + 1))
        elif ev == "parse":
            f = e["file"]
            # raised in the end -> "raises" (whatever was printed before); registered although an error was printed -> "reports"
            kind[f] = "raises" if not e["ok"] else ("reports" if e["reported"] else "valid")
            lines.append({"ev": "parse", "file": f, "ok": bool(e["ok"])})
        elif ev == "startcorrelate":
            for u in e["units"]:
                units[u["unit"]] = u
            lines.append({"ev": ev})
        elif ev == "deps":
            deps = {int(k): v for k, v in e["deps"].items()}
            ranks = {int(k): v for k, v in e["ranks"].items()}
            lines.append({"ev": ev})
        elif ev in ("correlate", "prune"):
            lines.append({"ev": ev, "unit": e["unit"]})
        elif ev == "name":
            if e["first"]:
                ents[e["e"]] = {"file": e["file"], "key": (e["dir"], e["key"]), "rank": len(ents) + 1}
            lines.append({"ev": ev, "e": e["e"], "n": e["n"], "first": bool(e["first"])})
        elif ev == "page":
            if e["path"] not in pages:
                pages[e["path"]] = {"id": len(pages) + 1, "file": e["file"]}
            lines.append({"ev": ev, "page": pages[e["path"]]["id"], "inwrite": bool(e["inwrite"])})
        elif ev == "wipe":
            lines.append({"ev": ev, "root": bool(e["root"])})
        elif ev == "end":
            for p in e["html"]:
                if p in pages:
                    atend.add(pages[p]["id"])
                elif p in ("index.html", "search.html") or p.startswith(PAGE_DIRS):
                    # an HTML file in a generated-pages directory that no page write produced (static pages may copy HTML files)
                    pages[p] = {"id": len(pages) + 1, "file": 0}
                    atend.add(pages[p]["id"])
            lines.append({"ev": ev, "atend": None})
        else:
            lines.append({"ev": ev})
    for ln in lines:
        if ln["ev"] == "end":
            ln["atend"] = [(i in atend) for i in range(1, len(pages) + 1)]
    for f in files:
        kind.setdefault(f, "valid")
    for u in units:
        deps.setdefault(u, [])
    consts = {
        "Files": "=" + _set(files),
        "Kind": _fn({f: _s(k) for f, k in kind.items() if f in files}),
        "Units": "=" + _set(units),
        "FileOf": _fn({u: d["file"] for u, d in units.items()}),
        "Class": _fn({u: d["cls"] for u, d in units.items()}),
        "UsesOf": _fn({u: _set(x for x in deps.get(u, []) if x in units) for u in units}),
        "Rank": _fn({u: (ranks.get(u, d["pos"]) if d["cls"] == 0 else d["pos"]) for u, d in units.items()}),
        "Ents": "=" + _set(ents),
        "EFile": _fn({k: d["file"] for k, d in ents.items()}),
        "EKey": _fn({k: f"<<{_s(d['key'][0])}, {_s(d['key'][1])}>>" for k, d in ents.items()}),
        "NameRank": _fn({k: d["rank"] for k, d in ents.items()}),
        "Pages": "=" + _set(d["id"] for d in pages.values()),
        "PFile": _fn({d["id"]: d["file"] for d in pages.values()}),
        "Dev": frozenset(dev),
    }
    registered = {ln["file"] for ln in lines if ln["ev"] == "parse" and ln["ok"]}
    notes = {"files": len(files), "units": len(units), "entities": len(ents), "pages": len(pages), "events": len(lines),
             "kinds": sorted(set(kind.values())),
             "_info": {"registered": registered, "unit_file": {u: d["file"] for u, d in units.items()},
                       "ent_file": {k: d["file"] for k, d in ents.items()}, "page_file": {d["id"]: d["file"] for d in pages.values()},
                       "page_path": {d["id"]: p for p, d in pages.items()}, "lines": lines}}
    return consts, lines, notes


def classify(result):
    """Which clause rejected the run: (owner property, text).  Owner None = ordering detail of the as-built model."""
    info = result["notes"]["_info"]
    ev = result.get("next_event")
    reg = info["registered"]
    if result.get("violated") and not str(result["violated"]).startswith("Postcondition"):
        return None, f"invariant {result['violated']} of Pipeline violated by the recorded run"
    if ev is None:
        return None, "trace not accepted"
    k = ev["ev"]
    if k == "name":
        f = info["ent_file"].get(ev["e"])
        if not ev["first"]:
            return "C10", f"get_name answered differently for an entity it had already named (entity {ev['e']})"
        if f and f not in reg:
            return "C20", f"an entity of file {f}, which was not registered, was given a page name (n={ev['n']})"
        return "C10", f"page name number {ev['n']} handed out for entity {ev['e']} is not first come, first served per (directory, stem)"
    if k == "page":
        f = info["page_file"].get(ev["page"])
        path = info["page_path"].get(ev["page"])
        if f and f not in reg:
            return "C20", f"page {path} written for an entity of file {f}, which was not registered"
        if not ev["inwrite"]:
            return "C12", f"page {path} written outside Documentation.writeout"
        before = info["lines"][: result["consumed"]]
        if not any(x["ev"] == "wipe" for x in before):
            return "C12", f"page {path} written although the output directory had not been wiped first (what an earlier run left stays)"
        return "C10", f"page {path} written twice: two pages share one output file"
    if k in ("correlate", "prune"):
        f = info["unit_file"].get(ev["unit"])
        if f and f not in reg:
            return "C20", f"unit {ev['unit']} of file {f}, which was not registered, was {k}d"
        return None, f"unit {ev['unit']} {k}d out of the modelled order (dependency level, then rank)"
    if k == "parse":
        return "C12", f"file {ev['file']} parsed out of sorted order (or twice)"
    if k == "wipe":
        return "C19", "rmtree inside writeout on a path that is not the output directory"
    if k == "end":
        return "C12", "the HTML files in the output directory are not exactly the pages this run wrote"
    return None, f"stage event {k} out of order"


def validate(events, dev=(), timeout=600):
    """Run TLC on one recorded run.  Returns dict(accepted, consumed, events, next_event, violated, notes)."""
    consts, lines, notes = constants_and_trace(events, dev)
    d = tlc.scratch_dir("verif-pipe-")
    try:
        tf = os.path.join(d, "trace.json")
        with open(tf, "w") as f:
            json.dump({"events": lines}, f)
        mod, cfg = tlc.make_model(d, "Pipeline_Trace", consts, spec="TraceSpec", invariants=["TraceInv"], postcondition="TraceAccepted")
        res = tlc.run(mod, cfg, workers=1, env={"TRACE_FILE": tf}, timeout=timeout)
        consumed = max(0, (res.depth or 1) - 1)
        accepted = bool(res.ok) and consumed == len(lines)
        out = {"accepted": accepted, "consumed": consumed, "events": len(lines), "violated": res.violated,
               "next_event": lines[consumed] if consumed < len(lines) else None, "notes": notes}
        if not accepted:
            out["owner"], out["why"] = classify(out)
        notes.pop("_info", None)
        if not accepted:
            out["tail"] = res.output[-600:]
        return out
    finally:
        shutil.rmtree(d, ignore_errors=True)


def record(files: dict, meta: dict | None = None, extra_dirs: dict | None = None):
    """Build a project end to end in a scratch directory with the whole-run recorder on; returns (ok, events, log)."""
    from . import pipetrace, site, fordrun
    with fordrun.tempdir() as d:
        fordrun.write_files(os.path.join(d, "src"), files)
        for sub, fs in (extra_dirs or {}).items():
            fordrun.write_files(os.path.join(d, sub), fs)
        with pipetrace.recording() as ev:
            ok, out, err = site.run_inproc(d, dict({"search": False}, **(meta or {})))
        return ok, list(ev), (out or "")[-400:] + (f" {type(err).__name__}: {err}" if err else "")
