"""Whole-run recorder for spec/Pipeline.tla (direction 2 of the umbrella spec).

Harness-side wrappers at public call boundaries (nothing in /repo changes; installed only when
FORD_VERIF_TRACE=1): file discovery, per-file parsing, per-unit correlate / prune, first get_name per entity,
the stage entries (correlate, markdown, page rendering, writeout), the wipe of the output directory and
every page write.  One event per Pipeline action, appended after the call returned (or raised), numbered by
a per-process sequence.
"""
from __future__ import annotations
import os

EVENTS: list = []
STATE = {"on": False, "files": {}, "units": {}, "ents": {}, "depth": 0, "reported": False, "in_writeout": False, "outdir": None}


def _ev(**kw):
    kw["seq"] = len(EVENTS) + 1
    EVENTS.append(kw)


def reset():
    EVENTS.clear()
    STATE.update(files={}, units={}, ents={}, depth=0, reported=False, in_writeout=False, outdir=None, deps_done=False, find_override=None)


def _file_id(path):
    p = os.path.realpath(str(path))
    return STATE["files"].get(p, 0)


def _file_of(e):
    """id of the source file an entity was parsed from (0: none, e.g. a list page)"""
    seen = 0
    while e is not None and seen < 100:
        if getattr(e, "obj", None) == "sourcefile":
            return _file_id(getattr(e, "path", ""))
        e = getattr(e, "parent", None)
        seen += 1
    return 0


def _unit_id(u):
    k = id(u)
    if k not in STATE["units"]:
        STATE["units"][k] = (len(STATE["units"]) + 1, u)
    return STATE["units"][k][0]


def _stem_key(raw: str) -> str:
    s = raw.lower()
    for a, b in (("<", "lt"), (">", "gt"), ("/", "SLASH"), ("*", "ASTERISK")):
        s = s.replace(a, b)
    return s or "__unnamed__"


def install():
    if os.environ.get("FORD_VERIF_TRACE") != "1":
        raise RuntimeError("pipetrace.install() needs FORD_VERIF_TRACE=1")
    import ford
    import ford.fortran_project as fp
    import ford.sourceform as sf
    import ford.output as fo
    if getattr(fp, "_verif_pipetrace", False):
        return
    fp._verif_pipetrace = True

    # ---- discovery: the order in which Project.__init__ will visit the files
    orig_find = fp.find_all_files

    def find_all_files(settings):
        res = (STATE.get("find_override") or orig_find)(settings)      # C12 supplies the enumeration order
        if STATE["on"]:
            order = sorted(res)
            exts = set(settings.extensions) | set(settings.fixed_extensions)
            STATE["files"] = {}
            listed = []
            for p in order:
                if str(p.suffix)[1:] in exts:
                    STATE["files"][os.path.realpath(str(p))] = len(listed) + 1
                    listed.append(str(p))
            _ev(ev="discover", files=listed)
        return res
    fp.find_all_files = find_all_files

    # ---- parse of one file (raises -> not registered); print_error during it -> "reports"
    orig_ff = fp.Project._fortran_file

    def _fortran_file(self, extension, filename, settings):
        if not STATE["on"]:
            return orig_ff(self, extension, filename, settings)
        STATE["reported"] = False
        n0 = len(self.files)
        ok = False
        try:
            r = orig_ff(self, extension, filename, settings)
            ok = True
            return r
        finally:
            _ev(ev="parse", file=_file_id(filename), ok=ok and len(self.files) == n0 + 1, reported=bool(STATE["reported"]))
    fp.Project._fortran_file = _fortran_file

    orig_pe = sf.FortranContainer.print_error

    def print_error(self, line, error, describe_object=True):
        STATE["reported"] = True
        return orig_pe(self, line, error, describe_object)
    sf.FortranContainer.print_error = print_error

    # ---- correlate stage: Project.correlate entry / exit; per top-level unit correlate and prune
    orig_pc = fp.Project.correlate

    def project_correlate(self):
        if not STATE["on"]:
            return orig_pc(self)
        # the units as the spec knows them, with independently computed module dependencies
        units = []
        for cls, lst in ((0, list(self.modules) + list(self.submodules)), (1, [p for p in self.procedures if p.parobj == "sourcefile"]),
                         (2, list(self.programs)), (3, list(self.blockdata))):
            for pos, u in enumerate(lst):
                units.append({"unit": _unit_id(u), "file": _file_of(u), "cls": cls, "pos": pos + 1, "name": (u.name or "").lower(),
                              "kind": type(u).__name__})
        _ev(ev="startcorrelate", units=units)
        STATE["deps_done"] = False
        try:
            return orig_pc(self)
        finally:
            _emit_deps()
            _ev(ev="endcorrelate")
    fp.Project.correlate = project_correlate

    def _emit_deps():
        # dependencies are known only after USE statements were matched up and must be read before pruning:
        # computed from the entity tree when the first unit is about to be pruned (or when correlate ends)
        if STATE.get("deps_done"):
            return
        STATE["deps_done"] = True
        deps = {}
        for k, (uid, u) in list(STATE["units"].items()):
            deps[uid] = sorted(_module_deps(u))
        ranks = {}
        mods = [(uid, u) for uid, u in STATE["units"].values() if type(u).__name__ in ("FortranModule", "FortranSubmodule")]
        for r, (uid, u) in enumerate(sorted(mods, key=lambda t: t[1].ident)):
            ranks[uid] = r + 1
        _ev(ev="deps", deps=deps, ranks=ranks)

    def wrap_unit(cls, meth, evname):
        orig = cls.__dict__.get(meth)
        if orig is None:
            return

        def w(self, *a, **kw):
            top = STATE["on"] and id(self) in STATE["units"]
            if top and evname == "prune":
                _emit_deps()
            try:
                return orig(self, *a, **kw)
            finally:
                if top:
                    _ev(ev=evname, unit=STATE["units"][id(self)][0])
        setattr(cls, meth, w)
    seen = set()
    for cls in (sf.FortranCodeUnit, sf.FortranModule, sf.FortranSubmodule, sf.FortranProcedure, sf.FortranSubroutine, sf.FortranFunction,
                sf.FortranProgram, sf.FortranBlockData, sf.FortranContainer, sf.FortranBase):
        for meth, evname in (("correlate", "correlate"), ("prune", "prune")):
            if (cls, meth) not in seen and meth in cls.__dict__:
                seen.add((cls, meth))
                wrap_unit(cls, meth, evname)

    # ---- names: first call per entity, and any later call that answers differently
    orig_gn = sf.NameSelector.get_name

    def get_name(self, item):
        ret = orig_gn(self, item)
        if STATE["on"]:
            k = id(item)
            first = k not in STATE["ents"]
            if first:
                STATE["ents"][k] = (len(STATE["ents"]) + 1, ret, item)
            eid, ret0, _ = STATE["ents"][k]
            if first or ret != ret0:
                base, _, num = ret.partition("~")
                _ev(ev="name", e=eid, file=_file_of(item), dir=item.get_dir() or "none",
                    key=_stem_key(item.name or ""), base=base, n=int(num) if num else 1, first=first)
        return ret
    sf.NameSelector.get_name = get_name

    # ---- later stages
    orig_md = fp.Project.markdown

    def project_markdown(self, md):
        if STATE["on"]:
            _ev(ev="startmarkdown")
        return orig_md(self, md)
    fp.Project.markdown = project_markdown

    orig_di = fo.Documentation.__init__

    def doc_init(self, *a, **kw):
        if STATE["on"]:
            _ev(ev="startrender")
        return orig_di(self, *a, **kw)
    fo.Documentation.__init__ = doc_init

    orig_wo = fo.Documentation.writeout

    def doc_writeout(self):
        if not STATE["on"]:
            return orig_wo(self)
        STATE["in_writeout"] = True
        STATE["outdir"] = os.path.realpath(str(self.data["output_dir"]))
        _ev(ev="startwrite")
        try:
            return orig_wo(self)
        finally:
            STATE["in_writeout"] = False
            _ev(ev="endwrite")
    fo.Documentation.writeout = doc_writeout

    orig_rmtree = fo.shutil.rmtree

    class _Shutil:
        def __getattr__(self, name):
            return getattr(fo_shutil, name)

        @staticmethod
        def rmtree(path, *a, **kw):
            r = orig_rmtree(path, *a, **kw)
            if STATE["on"] and STATE["in_writeout"]:
                _ev(ev="wipe", root=os.path.realpath(str(path)) == STATE["outdir"])
            return r
    fo_shutil = fo.shutil
    fo.shutil = _Shutil()

    orig_bw = fo.BasePage.writeout

    def page_writeout(self):
        try:
            return orig_bw(self)
        finally:
            if STATE["on"]:
                obj = getattr(self, "obj", None)
                fn = _file_of(obj) if obj is not None and hasattr(obj, "obj") else 0
                out = os.path.realpath(str(self.outfile))
                rel = os.path.relpath(out, STATE["outdir"]) if STATE["outdir"] else out
                _ev(ev="page", path=rel, file=fn, inwrite=bool(STATE["in_writeout"]))
    fo.BasePage.writeout = page_writeout

    orig_main = ford.main

    def main(proj_data, proj_docs):
        try:
            return orig_main(proj_data, proj_docs)
        finally:
            if STATE["on"]:
                out = STATE["outdir"]
                html = []
                if out and os.path.isdir(out):
                    for root, _, fs in os.walk(out):
                        for f in fs:
                            if f.endswith(".html"):
                                html.append(os.path.relpath(os.path.join(root, f), out))
                _ev(ev="end", html=sorted(html))
    ford.main = main


def _module_deps(u):
    """Unit ids of the modules a unit depends on: every USE anywhere inside it (procedures, interface bodies),
    plus the parent of a submodule.  Independent of Project.correlate's own get_deps."""
    out = set()

    def visit(e, depth=0):
        if depth > 50:
            return
        for use in getattr(e, "uses", []) or []:
            m = use[0] if isinstance(use, (list, tuple)) else use
            if type(m).__name__ == "FortranModule" and id(m) in STATE["units"]:
                out.add(STATE["units"][id(m)][0])
        for coll in ("functions", "subroutines", "modprocedures", "modfunctions", "modsubroutines"):
            for c in getattr(e, coll, []) or []:
                visit(c, depth + 1)
        for i in getattr(e, "interfaces", []) or []:
            if hasattr(i, "procedure"):
                visit(i.procedure, depth + 1)
    visit(u)
    if type(u).__name__ == "FortranSubmodule":
        par = getattr(u, "parent_submodule", None) or getattr(u, "ancestor_module", None)
        if par is not None and id(par) in STATE["units"]:
            out.add(STATE["units"][id(par)][0])
    out.discard(STATE["units"][id(u)][0] if id(u) in STATE["units"] else None)
    return out


class recording:
    def __enter__(self):
        os.environ["FORD_VERIF_TRACE"] = "1"
        install()
        reset()
        STATE["on"] = True
        return EVENTS

    def __exit__(self, *a):
        STATE["on"] = False
        return False
