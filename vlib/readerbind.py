"""Binding between ford.reader.FortranReader and the Lex / ReaderImpl / FreeForm specs."""
from __future__ import annotations
import io
import json
import os
import re
import shutil
import tempfile

from . import tlc

ERRMAP = [
    ("Preceding documentation lines can not be inline", "predoc-inline"),
    ("Preceding alternate documentation lines can not be inline", "predocalt-inline"),
    ("Alternate documentation lines can not be inline", "docalt-inline"),
    ("Can not start a new line in Fortran with", "amp-start"),
]

DEFAULT_MARKS = {"doc": "!", "pre": ">", "docalt": "*", "prealt": "|"}


class _LoggingIter:
    def __init__(self, it, log):
        self._it = iter(it)
        self._log = log

    def __iter__(self):
        return self

    def __next__(self):
        line = next(self._it)
        self._log.append(line)
        return line


def run_reader(path: str, marks=DEFAULT_MARKS, fixed=False, length_limit=True):
    """Run the real FortranReader over `path`.  Returns (lines_fed, yields, err)."""
    from ford.reader import FortranReader
    fed: list[str] = []
    yields: list[str] = []
    err = ""
    rd = FortranReader(path, marks["doc"], marks["pre"], marks["docalt"], marks["prealt"],
                       fixed=fixed, length_limit=length_limit)
    rd.reader = _LoggingIter(rd.reader, fed)
    try:
        for item in rd:
            yields.append(item)
    except Exception as ex:  # error path is part of the trace
        msg = str(ex)
        err = next((code for text, code in ERRMAP if text in msg), f"{type(ex).__name__}: {msg[:80]}")
    finally:
        try:
            rd.reader._it.close()
        except Exception:
            pass
    return fed, yields, err


def run_reader_text(text: str, marks=DEFAULT_MARKS, suffix=".f90", **kw):
    d = tempfile.mkdtemp(prefix="verif-rd-")
    try:
        p = os.path.join(d, "case" + suffix)
        with open(p, "w", encoding="utf-8", newline="") as f:
            f.write(text)
        return run_reader(p, marks, **kw)
    finally:
        shutil.rmtree(d, ignore_errors=True)


def _chars(s: str):
    return list(s.rstrip("\n").rstrip("\r"))


def trace_record(tid, fed, yields, err):
    return {"id": tid, "lines": [_chars(l) for l in fed], "yields": [list(y) for y in yields], "err": err}


def traceable(fed, yields) -> str | None:
    """Reason why a recorded run is outside what the trace spec models, or None."""
    for l in fed:
        if any(ord(c) > 126 or (ord(c) < 32 and c not in "\t\n\r") for c in l):
            return "non-ASCII or control character"
        if "\r" in l.rstrip("\n").rstrip("\r") or "\f" in l or "\v" in l:
            return "exotic white space"
    for l in fed:
        if l.strip() == "&":
            return "a line holding only '&' (not valid Fortran, F2018 6.3.2.4)"
    for y in yields:
        if y.lower().startswith("include "):
            return "unexpanded include"
    for l in fed:
        if re.match(r"\s*include\s+['\"]", l, re.I):
            return "include statement"
    return None


_VERDICT = re.compile(r'<<"VERDICT", "(.*)">>$')


def validate_traces(records, marks=DEFAULT_MARKS, dev=("QuoteParity", "QuoteLineBlind"), timeout=900):
    """Validate recorded reader runs against FreeForm_Trace.tla.  Returns list of verdict dicts."""
    if not records:
        return [], None
    d = tlc.scratch_dir("verif-trace-")
    try:
        tf = os.path.join(d, "traces.json")
        with open(tf, "w") as f:
            json.dump({"traces": records}, f)
        mod, cfg = tlc.make_model(d, "FreeForm_Trace", {
            "DocMark": tuple(marks["doc"]), "PreMark": tuple(marks["pre"]),
            "DocAlt": tuple(marks["docalt"]), "PreAlt": tuple(marks["prealt"]),
            "Dev": frozenset(dev)}, spec="Spec", postcondition="AllConsumed")
        res = tlc.run(mod, cfg, workers=1, env={"TRACE_FILE": tf}, timeout=timeout)
        verdicts = []
        for line in res.output.splitlines():
            m = _VERDICT.search(line.strip())
            if m:
                verdicts.append(json.loads(m.group(1).encode().decode("unicode_escape")))
        if len(verdicts) != len(records):
            raise tlc.TLCFailure(f"trace batch: {len(records)} traces, {len(verdicts)} verdicts\n" + res.output[-2000:])
        return verdicts, res
    finally:
        shutil.rmtree(d, ignore_errors=True)


def canon_items(yields, docmark="!"):
    """Python image of ReaderImpl.ToItems (used only for display / replay diffs)."""
    out = []
    for y in yields:
        if y.startswith("!" + docmark):
            t = y[1 + len(docmark):].rstrip()
            if t.strip():
                out.append(("d", t))
        else:
            out.append(("s", y))
    return out


def suite_records(repo: str, timeout=900):
    """Run the repository's own test-suite with the recording plugin (vlib/pytest_traces.py); returns the reader records."""
    import subprocess
    import sys
    d = tempfile.mkdtemp(prefix="verif-suite-")
    try:
        out = os.path.join(d, "records.json")
        env = dict(os.environ)
        root = os.path.dirname(os.path.dirname(os.path.abspath(__file__)))
        env.update({"FORD_VERIF_TRACE": "1", "VERIF_TRACE_OUT": out, "PYTHONPATH": root + os.pathsep + repo, "PYTHONDONTWRITEBYTECODE": "1"})
        p = subprocess.run([sys.executable, "-m", "pytest", "-q", "-p", "no:cacheprovider", "-p", "vlib.pytest_traces", "--timeout=900",
                            "--continue-on-collection-errors", "--basetemp", os.path.join(d, "bt")],
                           cwd=repo, env=env, capture_output=True, text=True, timeout=timeout)
        if not os.path.exists(out):
            raise tlc.TLCFailure("suite trace recording produced no file:\n" + (p.stdout + p.stderr)[-800:])
        with open(out) as f:
            return json.load(f)["records"], (p.stdout.strip().splitlines() or [""])[-1]
    finally:
        shutil.rmtree(d, ignore_errors=True)
