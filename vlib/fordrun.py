"""Running the real FORD (from /repo's working tree) on rendered cases."""
from __future__ import annotations
import contextlib
import io
import os
import shutil
import sys
import tempfile


def fresh_names():
    import ford.sourceform
    ford.sourceform.namelist = ford.sourceform.NameSelector()


@contextlib.contextmanager
def tempdir(prefix="verif-case-"):
    d = tempfile.mkdtemp(prefix=prefix, dir=os.environ.get("VERIF_SCRATCH"))
    try:
        yield d
    finally:
        shutil.rmtree(d, ignore_errors=True)


def write_files(root: str, files: dict):
    for rel, text in files.items():
        p = os.path.join(root, rel)
        os.makedirs(os.path.dirname(p), exist_ok=True)
        if isinstance(text, bytes):
            with open(p, "wb") as f:
                f.write(text)
        else:
            with open(p, "w", encoding="utf-8", newline="") as f:
                f.write(text)


def project(files: dict, correlate=True, order=None, capture=None, **settings):
    """Parse `files` (relative path -> text) placed under <tmp>/src and return the Project.
    The temporary directory is removed before returning (FORD keeps everything in memory).
    `order`: optional list of relative paths fixing the enumeration order of source files.
    `capture`: optional list that receives FORD's stdout text."""
    from ford.settings import ProjectSettings
    import ford.fortran_project as fp
    fresh_names()
    with tempdir() as d:
        src = os.path.join(d, "src")
        write_files(src, files)
        import pathlib as _pl
        kw = dict(src_dir=[_pl.Path(src)], preprocess=False, dbg=True, parallel=0, quiet=True,
                  display=["public", "private", "protected"], proc_internals=True)
        kw.update(settings)
        st = ProjectSettings(**kw)
        buf = io.StringIO()
        orig = fp.find_all_files
        if order is not None:
            import pathlib
            fixed = [pathlib.Path(src) / o for o in order]
            fp.find_all_files = lambda s: list(fixed)
        try:
            with contextlib.redirect_stdout(buf):
                p = fp.Project(st)
                if correlate:
                    p.correlate()
        finally:
            fp.find_all_files = orig
        if capture is not None:
            capture.append(buf.getvalue())
        return p
