"""Parser for TLA+ values as printed by TLC (state dumps, simulation files, traces).

Python image of a TLA+ value:
  integer -> int, string -> str, TRUE/FALSE -> bool, model value -> MV(name)
  <<a, b>> -> tuple, {a, b} -> frozenset, [f |-> v] -> dict (str keys),
  (k :> v @@ k2 :> v2) -> dict (arbitrary hashable keys), a..b -> tuple of ints
Functions with domain 1..n are printed by TLC as sequences, records as records.
"""
from __future__ import annotations
import re


class MV(str):
    """A TLC model value (bare identifier)."""

    def __repr__(self):
        return f"MV({str.__repr__(self)})"


class ParseError(Exception):
    pass


_TOKEN = re.compile(
    r"""\s*(?:
      (?P<str>"(?:[^"\\]|\\.)*")
    | (?P<num>-?\d+)
    | (?P<op><<|>>|\|->|:>|@@|\.\.|[\[\]{}(),])
    | (?P<id>[A-Za-z_][A-Za-z0-9_!]*)
    )""",
    re.X,
)


def _tokens(s: str):
    pos = 0
    n = len(s)
    out = []
    while pos < n:
        m = _TOKEN.match(s, pos)
        if not m:
            if s[pos:].strip() == "":
                break
            raise ParseError(f"bad token at {pos}: {s[pos:pos+40]!r}")
        pos = m.end()
        kind = m.lastgroup
        out.append((kind, m.group(kind)))
    return out


_ESC = {"n": "\n", "t": "\t", '"': '"', "\\": "\\", "r": "\r", "f": "\f"}


def _unescape(tok: str) -> str:
    body = tok[1:-1]
    if "\\" not in body:
        return body
    out = []
    i = 0
    while i < len(body):
        c = body[i]
        if c == "\\" and i + 1 < len(body):
            out.append(_ESC.get(body[i + 1], body[i + 1]))
            i += 2
        else:
            out.append(c)
            i += 1
    return "".join(out)


def _freeze(v):
    if isinstance(v, dict):
        return tuple(sorted(((_freeze(k), _freeze(x)) for k, x in v.items()), key=repr))
    if isinstance(v, (list, tuple)):
        return tuple(_freeze(x) for x in v)
    if isinstance(v, (set, frozenset)):
        return frozenset(_freeze(x) for x in v)
    return v


class _P:
    def __init__(self, toks):
        self.t = toks
        self.i = 0

    def peek(self):
        return self.t[self.i] if self.i < len(self.t) else (None, None)

    def eat(self, val=None):
        k, v = self.peek()
        if k is None or (val is not None and v != val):
            raise ParseError(f"expected {val!r} got {v!r} at token {self.i}")
        self.i += 1
        return k, v

    def value(self):
        k, v = self.peek()
        if k == "str":
            self.i += 1
            return _unescape(v)
        if k == "num":
            self.i += 1
            n = int(v)
            if self.peek()[1] == "..":
                self.i += 1
                _, hi = self.eat()
                return tuple(range(n, int(hi) + 1))
            return n
        if k == "id":
            self.i += 1
            if v == "TRUE":
                return True
            if v == "FALSE":
                return False
            return MV(v)
        if v == "<<":
            self.i += 1
            items = self.items(">>")
            return tuple(items)
        if v == "{":
            self.i += 1
            items = self.items("}")
            return frozenset(_freeze(x) for x in items)
        if v == "[":
            self.i += 1
            rec = {}
            if self.peek()[1] == "]":
                self.i += 1
                return rec
            while True:
                _, name = self.eat()
                self.eat("|->")
                rec[str(name)] = self.value()
                _, sep = self.eat()
                if sep == "]":
                    break
                if sep != ",":
                    raise ParseError(f"bad record separator {sep!r}")
            return rec
        if v == "(":
            self.i += 1
            fn = {}
            while True:
                key = self.value()
                self.eat(":>")
                val = self.value()
                fn[_freeze(key)] = val
                _, sep = self.eat()
                if sep == ")":
                    break
                if sep != "@@":
                    raise ParseError(f"bad function separator {sep!r}")
            return fn
        raise ParseError(f"unexpected token {v!r} at {self.i}")

    def items(self, close):
        out = []
        if self.peek()[1] == close:
            self.i += 1
            return out
        while True:
            out.append(self.value())
            _, sep = self.eat()
            if sep == close:
                return out
            if sep != ",":
                raise ParseError(f"bad separator {sep!r}")


def parse_value(text: str):
    p = _P(_tokens(text))
    v = p.value()
    if p.i != len(p.t):
        raise ParseError(f"trailing tokens after value: {p.t[p.i:p.i+5]}")
    return v


_CONJ = re.compile(r"^/\\ (\w+) = ", re.M)


def parse_state(block: str) -> dict:
    """Parse a '/\\ v = value' conjunction list (one TLC state) into a dict."""
    block = block.strip()
    if not block.startswith("/\\"):
        # single-variable state:  "x = 1"
        m = re.match(r"(\w+) = ", block)
        if not m:
            raise ParseError(f"not a state: {block[:60]!r}")
        return {m.group(1): parse_value(block[m.end():])}
    marks = list(_CONJ.finditer(block))
    out = {}
    for j, m in enumerate(marks):
        end = marks[j + 1].start() if j + 1 < len(marks) else len(block)
        out[m.group(1)] = parse_value(block[m.end():end])
    return out


_STATE_HDR = re.compile(r"^State (\d+):.*$", re.M)


def split_dump(text: str):
    """Split a TLC -dump file into the text blocks of its states."""
    marks = list(_STATE_HDR.finditer(text))
    for j, m in enumerate(marks):
        end = marks[j + 1].start() if j + 1 < len(marks) else len(text)
        yield text[m.end():end]


def to_tla(v) -> str:
    """Render a Python value as a TLA+ expression (inverse of parse_value)."""
    if isinstance(v, bool):
        return "TRUE" if v else "FALSE"
    if isinstance(v, MV):
        return str(v)
    if isinstance(v, int):
        return str(v)
    if isinstance(v, str):
        return '"' + v.replace("\\", "\\\\").replace('"', '\\"').replace("\n", "\\n").replace("\t", "\\t") + '"'
    if isinstance(v, (tuple, list)):
        return "<<" + ", ".join(to_tla(x) for x in v) + ">>"
    if isinstance(v, (set, frozenset)):
        return "{" + ", ".join(sorted(to_tla(x) for x in v)) + "}"
    if isinstance(v, dict):
        if not v:
            return "<<>>"
        if all(isinstance(k, str) and re.fullmatch(r"[A-Za-z_]\w*", k) for k in v):
            return "[" + ", ".join(f"{k} |-> {to_tla(x)}" for k, x in v.items()) + "]"
        return "(" + " @@ ".join(f"{to_tla(k)} :> {to_tla(x)}" for k, x in v.items()) + ")"
    raise TypeError(f"cannot render {type(v)}")


def jsonable(v):
    """Convert a parsed value to something json.dumps accepts (sets -> sorted lists)."""
    if isinstance(v, dict):
        return {(k if isinstance(k, str) else repr(k)): jsonable(x) for k, x in v.items()}
    if isinstance(v, (tuple, list)):
        return [jsonable(x) for x in v]
    if isinstance(v, (set, frozenset)):
        return sorted((jsonable(x) for x in v), key=repr)
    return v
