------------------------------- MODULE Lex -------------------------------
(***************************************************************************)
(* Reference free-form lexical rules (Fortran 2018 6.3.2 + FORD user guide *)
(* "Indicating documentation"), DESIGN.md Appendix B.1.  Pure operators    *)
(* over physical lines; a line is a sequence of one-character strings.     *)
(* This module is the ORACLE for C02 (and the reader half of C03/C14): it  *)
(* transcribes the rule, not FORD's code.                                  *)
(***************************************************************************)
EXTENDS Naturals, Sequences, FiniteSets, SequencesExt

CONSTANTS DocMark,      \* e.g. <<"!">>   after-doc marker (text after the leading "!")
          PreMark,      \* e.g. <<">">>   pre-doc marker, <<>> = disabled
          DocAlt,       \* e.g. <<"*">>   block after-doc marker, <<>> = disabled
          PreAlt        \* e.g. <<"|">>   block pre-doc marker, <<>> = disabled

SQ == "'"
DQ == "\""
Blank(c) == c \in {" ", "\t"}
IsQuote(c) == c \in {SQ, DQ}
AlNum(c) == c \in {"a","b","c","d","e","f","g","h","i","j","k","l","m","n","o","p","q","r","s","t","u","v","w","x","y","z",
                   "A","B","C","D","E","F","G","H","I","J","K","L","M","N","O","P","Q","R","S","T","U","V","W","X","Y","Z",
                   "0","1","2","3","4","5","6","7","8","9","_"}

RECURSIVE LStrip(_), RStrip(_)
LStrip(s) == IF s # <<>> /\ Blank(Head(s)) THEN LStrip(Tail(s)) ELSE s
RStrip(s) == IF s # <<>> /\ Blank(s[Len(s)]) THEN RStrip(SubSeq(s, 1, Len(s) - 1)) ELSE s
Strip(s) == LStrip(RStrip(s))

StartsWith(s, p) == Len(s) >= Len(p) /\ SubSeq(s, 1, Len(p)) = p
Drop(s, n) == SubSeq(s, n + 1, Len(s))

(* Quote state after scanning s starting in quote state q ("" = outside).  *)
(* A doubled delimiter inside a literal closes and re-opens: same parity.  *)
RECURSIVE QuoteAfter(_, _)
QuoteAfter(q, s) ==
  IF s = <<>> THEN q
  ELSE LET c == Head(s) IN
       IF q = "" THEN QuoteAfter(IF IsQuote(c) THEN c ELSE "", Tail(s))
       ELSE QuoteAfter(IF c = q THEN "" ELSE q, Tail(s))

(* Index of the first "!" outside character context (0 if none), scanning  *)
(* from quote state q.                                                     *)
RECURSIVE BangFrom(_, _, _)
BangFrom(q, s, i) ==
  IF i > Len(s) THEN 0
  ELSE LET c == s[i] IN
       IF q = "" THEN (IF c = "!" THEN i
                       ELSE BangFrom(IF IsQuote(c) THEN c ELSE "", s, i + 1))
       ELSE BangFrom(IF c = q THEN "" ELSE q, s, i + 1)
Bang(q, s) == BangFrom(q, s, 1)

(* Split s at ";" outside character context (q = "" at the start).         *)
RECURSIVE SplitSemi(_, _, _)
SplitSemi(q, s, acc) ==
  IF s = <<>> THEN <<acc>>
  ELSE LET c == Head(s) IN
       IF q = "" /\ c = ";" THEN <<acc>> \o SplitSemi("", Tail(s), <<>>)
       ELSE SplitSemi(IF q = "" THEN (IF IsQuote(c) THEN c ELSE "") ELSE (IF c = q THEN "" ELSE q),
                      Tail(s), Append(acc, c))

(* Canonical statement text: blanks outside literals carry no information  *)
(* beyond separating two name-like tokens; literal bodies are verbatim.    *)
RECURSIVE CanonFrom(_, _, _, _)
CanonFrom(q, s, out, pendingBlank) ==
  IF s = <<>> THEN out
  ELSE LET c == Head(s) IN
       IF q # "" THEN CanonFrom(IF c = q THEN "" ELSE q, Tail(s), Append(out, c), FALSE)
       ELSE IF Blank(c) THEN CanonFrom("", Tail(s), out, out # <<>>)
       ELSE LET sep == pendingBlank /\ out # <<>> /\ AlNum(out[Len(out)]) /\ AlNum(c)
                out2 == IF sep THEN Append(out, " ") ELSE out
            IN CanonFrom(IF IsQuote(c) THEN c ELSE "", Tail(s), Append(out2, c), FALSE)
Canon(s) == CanonFrom("", s, <<>>, FALSE)

StmtItem(s) == [k |-> "s", t |-> Canon(s)]
DocItem(s)  == [k |-> "d", t |-> RStrip(s)]

(***************************************************************************)
(* The reference lexer as a fold over physical lines.                      *)
(*   buf   text of the logical line assembled so far                       *)
(*   q     character context open at the end of buf ("" = none)            *)
(*   cont  the previous code line ended with "&"                           *)
(*   docs  doc lines to emit after the statements of this logical line     *)
(*   blk   0 none; 1 = inside a block (alt-marker) after-doc; 2 = inside a *)
(*         block pre-doc: following pure comment lines are doc lines       *)
(*   out   items emitted so far                                            *)
(***************************************************************************)
LexInit == [buf |-> <<>>, q |-> "", cont |-> FALSE, docs |-> <<>>, blk |-> 0, out |-> <<>>]

IsMark(com, m) == m # <<>> /\ StartsWith(Drop(com, 1), m)
AfterMark(com, m) == Drop(com, 1 + Len(m))

EmitLogical(st, text) ==
  LET parts == SplitSemi("", text, <<>>)
      stmts == SelectSeq([i \in 1..Len(parts) |-> Strip(parts[i])], LAMBDA p : p # <<>>)
  IN [st EXCEPT !.buf = <<>>, !.q = "", !.cont = FALSE, !.docs = <<>>,
                !.out = st.out \o [i \in 1..Len(stmts) |-> StmtItem(stmts[i])] \o st.docs]

LexLine(st, line) ==
  IF LStrip(line) # <<>> /\ Head(LStrip(line)) = "#" THEN st        \* preprocessor line: not Fortran
  ELSE
  LET \* in a continued character context the text resumes after a leading "&";
      \* a line whose first non-blank character is "!" is a comment line even there
      comline == st.q # "" /\ LStrip(line) # <<>> /\ Head(LStrip(line)) = "!"
      b     == IF comline THEN Len(line) - Len(LStrip(line)) + 1 ELSE Bang(st.q, line)
      code0 == IF b = 0 THEN line ELSE SubSeq(line, 1, b - 1)
      com   == IF b = 0 THEN <<>> ELSE SubSeq(line, b, Len(line))
      codeS == Strip(code0)
      pure  == codeS = <<>>                         \* no code on this line
      \* ---- classify the comment
      kind  == IF com = <<>> THEN "none"
               ELSE IF IsMark(com, PreMark) THEN "pre"
               ELSE IF IsMark(com, PreAlt)  THEN "prealt"
               ELSE IF IsMark(com, DocAlt)  THEN "docalt"
               ELSE IF IsMark(com, DocMark) THEN "doc"
               ELSE IF pure /\ st.blk > 0   THEN "blockline"
               ELSE "plain"
      doc   == CASE kind = "pre"       -> <<DocItem(AfterMark(com, PreMark))>>
                 [] kind = "prealt"    -> <<DocItem(AfterMark(com, PreAlt))>>
                 [] kind = "docalt"    -> <<DocItem(AfterMark(com, DocAlt))>>
                 [] kind = "doc"       -> <<DocItem(AfterMark(com, DocMark))>>
                 [] kind = "blockline" -> <<DocItem(Drop(com, 1))>>
                 [] OTHER              -> <<>>
      blk2  == IF ~pure THEN 0
               ELSE CASE kind = "docalt" -> 1 [] kind = "prealt" -> 2
                      [] kind = "blockline" -> st.blk [] OTHER -> 0
      \* a doc comment seen while no statement is open and which is an
      \* after-doc belongs to what precedes: emit now; everything else waits
      \* for the statement of the current / next logical line
      open  == st.cont \/ ~pure
      now   == ~open /\ st.docs = <<>> /\ (kind \in {"doc", "docalt"} \/ (kind = "blockline" /\ st.blk = 1))
      st1   == IF now THEN [st EXCEPT !.out = st.out \o doc, !.blk = blk2]
               ELSE [st EXCEPT !.docs = st.docs \o doc, !.blk = blk2]
  IN IF pure THEN st1
     ELSE
     LET \* ---- continuation rules
         lcode == LStrip(code0)
         lead  == Head(lcode) = "&"
         \* after a continued line a leading "&" marks the exact resumption point
         raw   == IF st1.cont /\ lead THEN Drop(lcode, 1) ELSE lcode
         rawR  == RStrip(raw)
         ends  == rawR # <<>> /\ rawR[Len(rawR)] = "&"
         piece == IF ends THEN SubSeq(rawR, 1, Len(rawR) - 1) ELSE rawR
         \* without a leading "&" the break is a token boundary (outside char context)
         piece2 == IF st1.cont /\ ~lead /\ st1.q = "" THEN <<" ">> \o piece ELSE piece
         st2   == [st1 EXCEPT !.buf = st1.buf \o piece2, !.q = QuoteAfter(st1.q, piece), !.cont = ends]
     IN IF ends THEN st2 ELSE EmitLogical(st2, st2.buf)

LexFold(st, lines, i) == FoldLeft(LexLine, st, lines)

(* Items a conforming reader must yield for a complete file.  Doc lines    *)
(* still waiting for a statement at end of file are emitted at the end.    *)
NoEmptyDocs(items) == SelectSeq(items, LAMBDA it : ~(it.k = "d" /\ Strip(it.t) = <<>>))
RefLex(lines) == LET st == LexFold(LexInit, lines, 1) IN NoEmptyDocs(st.out \o st.docs)
=============================================================================
