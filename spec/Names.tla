------------------------------- MODULE Names -------------------------------
(***************************************************************************)
(* C10: the NameSelector (ford/sourceform.py) hands every documented       *)
(* entity a file stem / anchor stem that must be unique inside its output  *)
(* directory (dir = "none" for entities that only get an anchor).          *)
(*   state   items  : entity -> stem handed out                            *)
(*           counts : <<dir, key>> -> how many entities registered so far  *)
(*   action  GetName(e, dir, raw): one call of NameSelector.get_name       *)
(*   Dev "CaseSensitiveCount": the counter is keyed by the name as written *)
(*        while the stem is lower-cased and symbol-replaced afterwards     *)
(***************************************************************************)
EXTENDS Naturals, Sequences, FiniteSets, TLC

CONSTANTS Dirs,      \* e.g. {"module", "proc", "none"}
          Raw,       \* names as written, e.g. {"foo", "Foo", "", "a<b", "altb"}
          StemOf,    \* Raw -> lower-cased, symbol-replaced stem (function given by the harness)
          Pairs,     \* set of <<dir, raw>> the generator may use
          MaxEnts,
          Dev

VARIABLES ents,    \* sequence of [dir, raw]: entity i was first registered with these
          items,   \* sequence: stem handed to entity i
          counts,  \* function <<dir, key>> -> Nat
          last     \* [e, stem] result of the last call (for the Stable property)

vars == <<ents, items, counts, last>>

Key(raw) == IF "CaseSensitiveCount" \in Dev THEN <<"raw", raw>> ELSE <<"stem", StemOf[raw]>>
Suffix(n) == IF n = 1 THEN "" ELSE IF n = 2 THEN "~2" ELSE IF n = 3 THEN "~3" ELSE IF n = 4 THEN "~4" ELSE IF n = 5 THEN "~5" ELSE "~6"
Count(d, k) == IF <<d, k>> \in DOMAIN counts THEN counts[<<d, k>>] ELSE 0
Base(raw) == IF StemOf[raw] = "" THEN "__unnamed__" ELSE StemOf[raw]

Init == ents = <<>> /\ items = <<>> /\ counts = << >> /\ last = <<>>

NewEntity(d, raw) ==
  /\ Len(ents) < MaxEnts /\ <<d, raw>> \in Pairs
  /\ LET n == Count(d, Key(raw)) + 1
         stem == <<Base(raw), Suffix(n)>>
     IN /\ counts' = [x \in DOMAIN counts \cup {<<d, Key(raw)>>} |-> IF x = <<d, Key(raw)>> THEN n ELSE counts[x]]
        /\ ents' = Append(ents, [dir |-> d, raw |-> raw])
        /\ items' = Append(items, stem)
        /\ last' = <<Len(ents) + 1, stem>>

Again(e) ==      \* a later call for an entity that is already registered
  /\ e \in 1..Len(ents)
  /\ last' = <<e, items[e]>>
  /\ UNCHANGED <<ents, items, counts>>

Next == (\E d \in Dirs, r \in Raw : NewEntity(d, r)) \/ (\E e \in 1..Len(ents) : Again(e))
Spec == Init /\ [][Next]_vars

(* distinct entities of one directory never share a stem (file names are compared  *)
(* case-insensitively on some file systems; the stems are lower-case already)      *)
Injective == \A i, j \in 1..Len(ents) : (i # j /\ ents[i].dir = ents[j].dir) => items[i] # items[j]
Stable == last # <<>> => items[last[1]] = last[2]
NeverCollide == \A i, j \in 1..Len(ents) : i # j => ~(ents[i].dir = ents[j].dir /\ StemOf[ents[i].raw] = StemOf[ents[j].raw] /\ ents[i].raw # ents[j].raw)  \* vacuity guard
=============================================================================
