------------------------------ MODULE FordLink ------------------------------
(***************************************************************************)
(* C11: which entity a [[name(kind):item(kind)]] reference denotes.        *)
(*                                                                         *)
(* World (a fixed project shape with three switches):                      *)
(*   module alpha [ variable tgt  if A ]                                   *)
(*     type holder [ component tgt if C ], binding bnd                     *)
(*     subroutine ctxproc [ local variable tgt if C ]                      *)
(*   module beta   [ a page-bearing entity named tgt of kind PRJ ]         *)
(*   program main  [ variable tgt if C ]                                   *)
(* Contexts in which documentation text is converted: the docs of holder,  *)
(* ctxproc, alpha, main; the project file; static pages (no entity).       *)
(* Ref (property statement, user guide "Links"): the documented entity's   *)
(* own contents first, then its parent's, then the whole project, each     *)
(* restricted by the kind qualifier when one is given; the item part is    *)
(* looked up in the component; a missing item links to the component with  *)
(* a warning; nothing found gives plain text.                              *)
(***************************************************************************)
EXTENDS Naturals, Sequences, FiniteSets, TLC

VARIABLES w, ctx, link, phase, out
vars == <<w, ctx, link, phase, out>>

Ctxs == {"holder", "ctxproc", "alpha", "main", "projectfile", "page0", "page1"}
PrjKinds == {"none", "proc", "type", "module"}
(* kind qualifiers of the first part and the project collection they select *)
Q1 == {"", "procedure", "proc", "subroutine", "type", "module", "program", "file"}
ProcQ == {"procedure", "proc", "subroutine"}
(* spellings: name / first qualifier / item / item qualifier *)
Links ==
  {[n |-> "tgt", q1 |-> q, item |-> "", q2 |-> ""] : q \in Q1 \ {"program", "file"}}
  \cup {[n |-> "nosuch", q1 |-> "", item |-> "", q2 |-> ""]}
  \cup {[n |-> "alpha", q1 |-> q, item |-> i, q2 |-> q2] : q \in {"", "module"}, i \in {"", "tgt", "holder", "missing"}, q2 \in {"", "variable", "type", "interface"}}
  \* `holder` names a type AND its constructor interface: only qualified spellings are defined
  \cup {[n |-> "holder", q1 |-> "type", item |-> i, q2 |-> q2] : i \in {"", "tgt", "bnd"}, q2 \in {"", "variable", "bound"}}
  \* ... and the constructor interface is reached with a procedure qualifier, also when the item part names nothing
  \cup {[n |-> "holder", q1 |-> q, item |-> i, q2 |-> ""] : q \in {"proc", "procedure"}, i \in {"", "missing"}}
  \cup {[n |-> "holder", q1 |-> "type", item |-> "missing", q2 |-> ""]}
  \* an abstract interface of alpha: the kinds "interface" and "absinterface" both select abstract interfaces (user guide)
  \cup {[n |-> "absi", q1 |-> q, item |-> "", q2 |-> ""] : q \in {"", "interface", "absinterface"}}
  \* a type that extends holder and inherits its generic binding gnb: the item is looked up in the named component
  \cup {[n |-> "heir", q1 |-> "type", item |-> i, q2 |-> q2] : i \in {"gnb"}, q2 \in {"", "bound"}}
  \* `rst` is a subroutine of alpha and of another module: defined only where the context decides
  \cup {[n |-> "rst", q1 |-> q, item |-> "", q2 |-> ""] : q \in {"", "subroutine"}}
  \cup {[n |-> "main", q1 |-> q, item |-> "", q2 |-> ""] : q \in {"", "program"}}
WellFormedLink(l) == (l.item = "" => l.q2 = "")
                     /\ (l.q2 = "variable" => l.item = "tgt") /\ (l.q2 \in {"type", "interface"} => l.item = "holder") /\ (l.q2 = "bound" => l.item \in {"bnd", "gnb"})
                     /\ (l.item = "holder" => l.q2 # "")

Init == w = << >> /\ ctx = "" /\ link = << >> /\ phase = "init" /\ out = <<>>
Choose ==
  /\ phase = "init"
  /\ \E a \in BOOLEAN, c \in BOOLEAN, p \in PrjKinds, x \in Ctxs, l \in Links :
       /\ WellFormedLink(l)
       /\ (l.n = "rst") => x \in {"holder", "ctxproc", "alpha"}
       /\ w' = [A |-> a, C |-> c, PRJ |-> p] /\ ctx' = x /\ link' = l
  /\ phase' = "chosen" /\ UNCHANGED out

(* ---- the world: children by (owner, name, sub-kind) ------------------------------ *)
HasChild(owner, name) ==
  CASE owner = "holder" -> (name = "tgt" /\ w.C) \/ name = "bnd"
    [] owner = "ctxproc" -> name = "tgt" /\ w.C
    [] owner = "main" -> name = "tgt" /\ w.C
    [] owner = "alpha" -> (name = "tgt" /\ w.A) \/ name \in {"holder", "ctxproc", "rst"}
    [] OTHER -> FALSE
ChildKind(owner, name) ==
  IF name = "tgt" THEN "variable" ELSE IF name = "bnd" THEN "bound" ELSE IF name = "holder" THEN "type" ELSE "subroutine"
ParentOf(c) == CASE c \in {"holder", "ctxproc"} -> "alpha" [] OTHER -> ""      \* modules and programs hang below their file

(* does a first-part qualifier select children of that sub-kind in a context lookup? *)
QualMatchesChild(q, kind) == q = "" \/ (q = "subroutine" /\ kind = "subroutine") \/ (q = "type" /\ kind = "type")
(* project-wide lookup by name and qualifier *)
ProjFind(name, q) ==
  IF name = "tgt" THEN
     (IF w.PRJ = "proc" /\ (q = "" \/ q \in ProcQ) THEN <<"beta", "tgt", "proc">>
      ELSE IF w.PRJ = "type" /\ q \in {"", "type"} THEN <<"beta", "tgt", "type">>
      ELSE IF w.PRJ = "module" /\ q \in {"", "module"} THEN <<"tgt">>
      ELSE <<>>)
  ELSE IF name = "alpha" /\ q \in {"", "module"} THEN <<"alpha">>
  ELSE IF name = "holder" /\ q \in {"", "type"} THEN <<"alpha", "holder">>
  ELSE IF name = "holder" /\ q \in {"proc", "procedure"} THEN <<"alpha", "holder", "iface">>
  ELSE IF name = "main" /\ q \in {"", "program"} THEN <<"main">>
  ELSE IF name = "absi" /\ q \in {"", "interface", "absinterface"} THEN <<"alpha", "absi">>
  ELSE IF name = "heir" /\ q \in {"", "type"} THEN <<"alpha", "heir">>
  ELSE <<>>

Qualify(owner, name) == IF owner = "holder" THEN <<"alpha", "holder", name>> ELSE IF owner = "ctxproc" THEN <<"alpha", "ctxproc", name>> ELSE <<owner, name>>

ItemIn(target, item, q2) ==      \* entity of the item inside a found component, or "none"
  LET owner == CASE target = <<"alpha">> -> "alpha" [] target = <<"alpha", "holder">> -> "holder" [] target = <<"main">> -> "main" [] OTHER -> ""
  IN IF target = <<"alpha", "heir">> /\ item = "gnb" THEN <<"alpha", "heir", "gnb">>
     ELSE IF owner = "alpha" /\ item = "holder" /\ q2 = "interface" THEN <<"alpha", "holder", "iface">>
     ELSE IF owner # "" /\ HasChild(owner, item) /\ (q2 = "" \/ q2 = ChildKind(owner, item))
     THEN Qualify(owner, item) ELSE <<>>

Target ==
  LET l == link
      inCtx(o) == o # "" /\ HasChild(o, l.n) /\ QualMatchesChild(l.q1, ChildKind(o, l.n))
      hasCtx == ctx \in {"holder", "ctxproc", "alpha", "main"}
      first == IF hasCtx /\ inCtx(ctx) THEN Qualify(ctx, l.n)
               ELSE IF hasCtx /\ inCtx(ParentOf(ctx)) THEN Qualify(ParentOf(ctx), l.n)
               ELSE <<>>
      comp == IF first # <<>> THEN first ELSE ProjFind(l.n, l.q1)
  IN IF comp = <<>> THEN <<"plain">>
     ELSE IF l.item = "" THEN comp
     ELSE IF ItemIn(comp, l.item, l.q2) # <<>> THEN ItemIn(comp, l.item, l.q2)
     ELSE comp           \* item not found: warning, link to the component's page

Emit == /\ phase = "chosen" /\ phase' = "done" /\ out' = Target /\ UNCHANGED <<w, ctx, link>>
Next == Choose \/ Emit
Spec == Init /\ [][Next]_vars

(* ---- sanity properties of the rule --------------------------------------------------- *)
OwnBeforeParentBeforeProject == phase = "chosen" =>
  ((link.n = "tgt" /\ link.q1 = "" /\ ctx = "holder" /\ w.C) => Target = <<"alpha", "holder", "tgt">>)
  /\ ((link.n = "tgt" /\ link.q1 = "" /\ ctx = "holder" /\ ~w.C /\ w.A) => Target = <<"alpha", "tgt">>)
  /\ ((link.n = "tgt" /\ link.q1 = "" /\ ctx = "holder" /\ ~w.C /\ ~w.A /\ w.PRJ = "none") => Target = <<"plain">>)
AbsentIsPlain == phase = "chosen" => (link.n = "nosuch" => Target = <<"plain">>)
NeverProject == ~(phase = "chosen" /\ Target = <<"beta", "tgt", "proc">>)       \* vacuity guard
=============================================================================
