--------------------------- MODULE FreeForm_Trace ---------------------------
(***************************************************************************)
(* Direction 2 for C02/C03/C14: executions of the real FortranReader,      *)
(* recorded as (physical lines fed, strings yielded), are validated        *)
(*   (a) against the reference lexical rules  (RefLex, property verdict),  *)
(*   (b) against the as-built mechanism model (ImplYields, model drift).   *)
(* Many traces are batched in one file (IOEnv.TRACE_FILE); one TLC step    *)
(* consumes one trace and prints one verdict line.  -workers 1.            *)
(***************************************************************************)
EXTENDS ReaderImpl, Json, IOUtils

VARIABLE i

Traces == JsonDeserialize(IOEnv.TRACE_FILE).traces
N == Len(Traces)

RECURSIVE FirstDiff(_, _, _)
FirstDiff(a, b, k) ==
  IF k > Len(a) /\ k > Len(b) THEN 0
  ELSE IF k > Len(a) \/ k > Len(b) THEN k
  ELSE IF a[k] # b[k] THEN k ELSE FirstDiff(a, b, k + 1)

Verdict(t) ==
  LET impl  == FeedAll(RInit, t.lines, 1)
      obs   == ToItems(t.yields)
      ref   == RefLex(t.lines)
      dRef  == FirstDiff(obs, ref, 1)
      dImpl == IF impl.err # "" THEN (IF t.err = impl.err THEN FirstDiff(impl.out, t.yields, 1) ELSE 1)
               ELSE IF t.err # "" THEN 1 ELSE FirstDiff(impl.out, t.yields, 1)
  IN [id |-> t.id, ref |-> dRef, impl |-> dImpl, nobs |-> Len(obs), nref |-> Len(ref),
      obsAt |-> IF dRef > 0 /\ dRef <= Len(obs) THEN obs[dRef] ELSE <<>>,
      refAt |-> IF dRef > 0 /\ dRef <= Len(ref) THEN ref[dRef] ELSE <<>>]

Init == i = 0
Next == /\ i < N
        /\ i' = i + 1
        /\ PrintT(<<"VERDICT", ToJson(Verdict(Traces[i + 1]))>>)
Spec == Init /\ [][Next]_i
AllConsumed == TLCGet("stats").diameter - 1 = N
=============================================================================
