------------------------------ MODULE Pipeline ------------------------------
(***************************************************************************)
(* The run as a whole (umbrella spec; serves C20, binds C12 / C19 / C10).  *)
(*                                                                         *)
(* One action per stage step of ford.main:                                 *)
(*   ParseOk / ParseFail     Project.__init__: the discovered files, one   *)
(*                           by one in sorted order; a file whose parse    *)
(*                           raises is not registered                      *)
(*   StartCorrelate          Project.correlate is entered                  *)
(*   Correlate(u)            top-level units in the order                  *)
(*                             modules and submodules by dependency level  *)
(*                             (toposort: level = longest chain of module  *)
(*                             dependencies below it), sorted inside a     *)
(*                             level; then top-level procedures, programs, *)
(*                             block data in list order                    *)
(*   StartPrune / Prune(u)   after every unit has been correlated, in the  *)
(*                           same order                                    *)
(*   Name(e)                 NameSelector.get_name, first call per entity: *)
(*                           first come, first served, numbered per        *)
(*                           (directory, stem)                             *)
(*   StartMarkdown, StartRender                                            *)
(*   Wipe                    Documentation.writeout removes the output     *)
(*                           directory                                     *)
(*   Write(p)                one page file                                 *)
(*   Finish                                                                *)
(* A file is valid, or corrupt in one of two ways:                         *)
(*    "raises"   the parser raises: nothing of the file is registered      *)
(*    "reports"  the parser reports an error through print_error           *)
(* With default settings (dbg = true) print_error only prints:             *)
(*    Dev "ReportContinues": a file of kind "reports" is registered with   *)
(*    whatever was parsed of it and takes part in naming and linking.      *)
(* C20: the names (page URLs) of the entities of the valid files are those *)
(* of the run without the corrupt files (Containment).                     *)
(***************************************************************************)
EXTENDS Naturals, Sequences, FiniteSets, TLC

CONSTANTS Files,      \* file ids 1..n (numeric order = parse order)
          Kind,       \* file -> "valid" | "raises" | "reports"
          Units,      \* top-level program units
          FileOf,     \* unit -> file
          Class,      \* unit -> 0 module / submodule, 1 top-level procedure, 2 program, 3 block data
          UsesOf,     \* unit -> units it depends on (USE anywhere inside it; parent of a submodule)
          Rank,       \* unit -> position inside its class (modules: sorted by identifier; others: list order)
          Ents,       \* entities that get a page name
          EFile,      \* entity -> file
          EKey,       \* entity -> <<directory, stem>>
          NameRank,   \* entity -> position in the order of first get_name calls
          Pages,      \* page files
          PFile,      \* page -> file of the entity it documents, 0 for project-level pages
          Dev

VARIABLES phase, todo, registered, failed, correlated, pruned, stems, wiped, written
vars == <<phase, todo, registered, failed, correlated, pruned, stems, wiped, written>>

Valid == {f \in Files : Kind[f] = "valid"}
Min(S) == CHOOSE x \in S : \A y \in S : x <= y
Max(S) == CHOOSE x \in S : \A y \in S : x >= y
Range(s) == {s[i] : i \in 1..Len(s)}

Init == /\ phase = "parse" /\ todo = Files /\ registered = {} /\ failed = {}
        /\ correlated = <<>> /\ pruned = <<>> /\ stems = << >> /\ wiped = FALSE /\ written = {}

(* ---- parsing ---------------------------------------------------------------- *)
ParseOk ==
  /\ phase = "parse" /\ todo # {}
  /\ LET f == Min(todo) IN
     /\ Kind[f] = "valid" \/ (Kind[f] = "reports" /\ "ReportContinues" \in Dev)
     /\ registered' = registered \cup {f} /\ todo' = todo \ {f}
     /\ failed' = IF Kind[f] = "reports" THEN failed \cup {f} ELSE failed     \* still reported
  /\ UNCHANGED <<phase, correlated, pruned, stems, wiped, written>>

ParseFail ==
  /\ phase = "parse" /\ todo # {}
  /\ LET f == Min(todo) IN
     /\ Kind[f] = "raises" \/ (Kind[f] = "reports" /\ "ReportContinues" \notin Dev)
     /\ failed' = failed \cup {f} /\ todo' = todo \ {f}
  /\ UNCHANGED <<phase, registered, correlated, pruned, stems, wiped, written>>

(* ---- correlation order ------------------------------------------------------- *)
RegUnitsOf(reg) == {u \in Units : FileOf[u] \in reg}
RegUnits == RegUnitsOf(registered)
IsMod(u) == Class[u] = 0
ModDepsIn(u, reg) == {d \in UsesOf[u] : d \in RegUnitsOf(reg) /\ IsMod(d)} \ {u}
ModDeps(u) == ModDepsIn(u, registered)
RECURSIVE LevelIn(_, _)
LevelIn(u, reg) == IF ~IsMod(u) \/ ModDepsIn(u, reg) = {} THEN 0 ELSE 1 + Max({LevelIn(d, reg) : d \in ModDepsIn(u, reg)})
Level(u) == LevelIn(u, registered)
KeyLess(a, b) == \/ Class[a] < Class[b]
                 \/ Class[a] = Class[b] /\ Level(a) < Level(b)
                 \/ Class[a] = Class[b] /\ Level(a) = Level(b) /\ Rank[a] < Rank[b]
NextUnit(done) == CHOOSE u \in RegUnits \ done : \A v \in (RegUnits \ done) \ {u} : KeyLess(u, v)

StartCorrelate == /\ phase = "parse" /\ todo = {} /\ phase' = "correlate"
                  /\ UNCHANGED <<todo, registered, failed, correlated, pruned, stems, wiped, written>>
Correlate(u) ==
  /\ phase = "correlate" /\ u \in RegUnits \ Range(correlated)
  /\ u = NextUnit(Range(correlated))
  /\ correlated' = Append(correlated, u)
  /\ UNCHANGED <<phase, todo, registered, failed, pruned, stems, wiped, written>>
StartPrune == /\ phase = "correlate" /\ Range(correlated) = RegUnits /\ phase' = "prune"
              /\ UNCHANGED <<todo, registered, failed, correlated, pruned, stems, wiped, written>>
Prune(u) ==
  /\ phase = "prune" /\ u \in RegUnits \ Range(pruned)
  /\ u = NextUnit(Range(pruned))
  /\ pruned' = Append(pruned, u)
  /\ UNCHANGED <<phase, todo, registered, failed, correlated, stems, wiped, written>>
StartMarkdown == /\ phase = "prune" /\ Range(pruned) = RegUnits /\ phase' = "markdown"
                 /\ UNCHANGED <<todo, registered, failed, correlated, pruned, stems, wiped, written>>
StartRender == /\ phase = "markdown" /\ phase' = "render"
               /\ UNCHANGED <<todo, registered, failed, correlated, pruned, stems, wiped, written>>

(* ---- naming: first come, first served ------------------------------------------- *)
RegEnts == {e \in Ents : EFile[e] \in registered}
Name(e) ==
  /\ phase \notin {"parse", "done"}
  /\ e \in RegEnts \ DOMAIN stems
  /\ \A x \in (RegEnts \ DOMAIN stems) \ {e} : NameRank[e] < NameRank[x]
  /\ LET n == Cardinality({x \in DOMAIN stems : stems[x].key = EKey[e]}) + 1
     IN stems' = stems @@ (e :> [key |-> EKey[e], n |-> n])
  /\ UNCHANGED <<phase, todo, registered, failed, correlated, pruned, wiped, written>>

(* ---- writing ------------------------------------------------------------------------ *)
Wipe == /\ phase = "render" /\ phase' = "write" /\ wiped' = TRUE
        /\ UNCHANGED <<todo, registered, failed, correlated, pruned, stems, written>>
Writable == {p \in Pages : PFile[p] = 0 \/ PFile[p] \in registered}
Write(p) == /\ phase = "write" /\ wiped /\ p \in Writable \ written /\ written' = written \cup {p}
            /\ UNCHANGED <<phase, todo, registered, failed, correlated, pruned, stems, wiped>>
Finish == /\ phase = "write" /\ written = Writable /\ RegEnts \subseteq DOMAIN stems /\ phase' = "done"
          /\ UNCHANGED <<todo, registered, failed, correlated, pruned, stems, wiped, written>>

Next == \/ ParseOk \/ ParseFail \/ StartCorrelate \/ (\E u \in Units : Correlate(u)) \/ StartPrune \/ (\E u \in Units : Prune(u))
        \/ StartMarkdown \/ StartRender \/ (\E e \in Ents : Name(e)) \/ Wipe \/ (\E p \in Pages : Write(p)) \/ Finish
Spec == Init /\ [][Next]_vars /\ WF_vars(Next)

(* ---- reference: the run without the corrupt files --------------------------- *)
RECURSIVE RefNumber(_, _)
RefNumber(S, acc) ==      \* entities of the valid files in the order of their first naming
  IF S = {} THEN acc
  ELSE LET e == CHOOSE x \in S : \A y \in S \ {x} : NameRank[x] < NameRank[y]
           n == Cardinality({g \in DOMAIN acc : acc[g].key = EKey[e]}) + 1
       IN RefNumber(S \ {e}, acc @@ (e :> [key |-> EKey[e], n |-> n]))
RefStems == RefNumber({e \in Ents : EFile[e] \in Valid}, << >>)

(* ---- properties ------------------------------------------------------------- *)
CorrelateAfterDeps == \A i \in 1..Len(correlated) : \A g \in ModDeps(correlated[i]) :
                         \E j \in 1..(i - 1) : correlated[j] = g
PruneAfterCorrelate == pruned # <<>> => Range(correlated) = RegUnits
NoRegistrationOfFailedFile == \A f \in registered : Kind[f] = "valid"
EveryCorruptFileReported == (phase # "parse") => \A f \in Files : Kind[f] # "valid" => f \in failed
Containment == (phase = "done") => \A e \in Ents : EFile[e] \in Valid => (e \in DOMAIN stems /\ stems[e] = RefStems[e])
NamesInjective == \A a, b \in DOMAIN stems : a # b => stems[a] # stems[b]
WriteOnlyRegistered == \A p \in written : PFile[p] = 0 \/ PFile[p] \in registered
WriteAfterWipe == written # {} => wiped
NothingBeforeParseEnds == (phase = "parse") => (correlated = <<>> /\ stems = << >> /\ written = {})
Terminates == <>(phase = "done")
=============================================================================
