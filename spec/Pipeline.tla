------------------------------ MODULE Pipeline ------------------------------
(***************************************************************************)
(* The run as a whole (umbrella spec; serves C20, binds C12/C19).          *)
(*                                                                         *)
(* Files are discovered, parsed one by one in sorted order (ParseOk /      *)
(* ParseFail), the registered units are correlated in dependency order,    *)
(* pruned, named (first come, first served - Names.tla) and written.       *)
(* A file is either valid, or corrupt in one of two ways:                  *)
(*    "raises"   the parser raises: nothing of the file is registered      *)
(*    "reports"  the parser reports an error through print_error           *)
(* With default settings (dbg = true) print_error only prints:             *)
(*    Dev "ReportContinues": a file of kind "reports" is registered with   *)
(*    whatever was parsed of it and takes part in naming and linking.      *)
(* C20: Observable(valid + corrupt) restricted to the valid files equals   *)
(* Observable(valid).                                                      *)
(***************************************************************************)
EXTENDS Naturals, Sequences, FiniteSets, TLC

CONSTANTS Files,      \* file ids 1..n (numeric order = parse order)
          Kind,       \* file -> "valid" | "raises" | "reports"
          NameOf,     \* file -> name of the page-bearing entity it defines
          UsesOf,     \* file -> set of files whose module it USEs
          Dev

VARIABLES phase, todo, registered, failed, correlated, stems, written
vars == <<phase, todo, registered, failed, correlated, stems, written>>

Valid == {f \in Files : Kind[f] = "valid"}

Init == /\ phase = "parse" /\ todo = Files /\ registered = {} /\ failed = {}
        /\ correlated = <<>> /\ stems = << >> /\ written = {}

Min(S) == CHOOSE x \in S : \A y \in S : x <= y

ParseOk ==
  /\ phase = "parse" /\ todo # {}
  /\ LET f == Min(todo) IN
     /\ Kind[f] = "valid" \/ (Kind[f] = "reports" /\ "ReportContinues" \in Dev)
     /\ registered' = registered \cup {f} /\ todo' = todo \ {f}
     /\ failed' = IF Kind[f] = "reports" THEN failed \cup {f} ELSE failed     \* still reported
  /\ UNCHANGED <<phase, correlated, stems, written>>

ParseFail ==
  /\ phase = "parse" /\ todo # {}
  /\ LET f == Min(todo) IN
     /\ Kind[f] = "raises" \/ (Kind[f] = "reports" /\ "ReportContinues" \notin Dev)
     /\ failed' = failed \cup {f} /\ todo' = todo \ {f}
  /\ UNCHANGED <<phase, registered, correlated, stems, written>>

StartCorrelate == /\ phase = "parse" /\ todo = {} /\ phase' = "correlate"
                  /\ UNCHANGED <<todo, registered, failed, correlated, stems, written>>

Done(f) == \E i \in 1..Len(correlated) : correlated[i] = f
Correlate(f) ==
  /\ phase = "correlate" /\ f \in registered /\ ~Done(f)
  /\ \A g \in UsesOf[f] \cap registered : Done(g)            \* dependencies first
  /\ f = Min({h \in registered : ~Done(h) /\ \A g \in UsesOf[h] \cap registered : Done(g)})   \* sorted toposort
  /\ correlated' = Append(correlated, f)
  /\ LET n == Cardinality({g \in DOMAIN stems : NameOf[g] = NameOf[f]}) + 1
     IN stems' = stems @@ (f :> <<NameOf[f], n>>)
  /\ UNCHANGED <<phase, todo, registered, failed, written>>

StartWrite == /\ phase = "correlate" /\ \A f \in registered : Done(f) /\ phase' = "write"
              /\ UNCHANGED <<todo, registered, failed, correlated, stems, written>>
Write(f) == /\ phase = "write" /\ f \in registered \ written /\ written' = written \cup {f}
            /\ UNCHANGED <<phase, todo, registered, failed, correlated, stems>>
Finish == /\ phase = "write" /\ written = registered /\ phase' = "done"
          /\ UNCHANGED <<todo, registered, failed, correlated, stems, written>>

Next == ParseOk \/ ParseFail \/ StartCorrelate \/ (\E f \in Files : Correlate(f)) \/ StartWrite \/ (\E f \in Files : Write(f)) \/ Finish
Spec == Init /\ [][Next]_vars /\ WF_vars(Next)

(* ---- reference: the run without the corrupt files --------------------------- *)
RECURSIVE RefNumber(_, _, _)
RefNumber(S, done, acc) ==      \* valid files in the deterministic correlate order (dependencies first, then by id)
  IF S = {} THEN acc
  ELSE LET ready == {f \in S : UsesOf[f] \cap Valid \subseteq done}
           f == Min(IF ready = {} THEN S ELSE ready)
           n == Cardinality({g \in DOMAIN acc : NameOf[g] = NameOf[f]}) + 1
       IN RefNumber(S \ {f}, done \cup {f}, acc @@ (f :> <<NameOf[f], n>>))
RefStems == RefNumber(Valid, {}, << >>)

(* ---- properties ------------------------------------------------------------- *)
CorrelateAfterDeps == \A i \in 1..Len(correlated) : \A g \in UsesOf[correlated[i]] \cap registered :
                         \E j \in 1..(i - 1) : correlated[j] = g
NoRegistrationOfFailedFile == \A f \in registered : Kind[f] = "valid"
EveryCorruptFileReported == (phase # "parse") => \A f \in Files : Kind[f] # "valid" => f \in failed
Containment == (phase = "done") => \A f \in Valid : f \in DOMAIN stems /\ stems[f] = RefStems[f]
WriteOnlyRegistered == written \subseteq registered
Terminates == <>(phase = "done")
=============================================================================
