------------------------------- MODULE Access -------------------------------
(***************************************************************************)
(* C04: accessibility (PUBLIC / PRIVATE / PROTECTED) of module-level       *)
(* entities, derived-type components and type-bound procedures.            *)
(*                                                                         *)
(*  prog   abstract specification part built statement by statement        *)
(*         (generator: every reachable Complete state is a legal program)  *)
(*  Ref    the accessibility Fortran defines (F2018 8.5.2, 8.6.1, 7.5.4.8, *)
(*         7.5.5; DESIGN.md B.3) - order-independent                       *)
(*  Impl   as-built mechanism of ford/sourceform.py (permission /          *)
(*         child_permission captured when the declaration is read,         *)
(*         attr_dict applied at unit end), with the named deviation        *)
(*           "LatePrivate": a bare access statement only affects entities  *)
(*                          declared after it                              *)
(*         Dev = {} is the mechanism as it should be.                      *)
(***************************************************************************)
EXTENDS Naturals, Sequences, FiniteSets, TLC

CONSTANTS Mode,      \* "module" | "type" | "submodule"
          MaxStmts,  \* statements in the generated part
          Names,     \* entity names available
          Dev

VARIABLES prog, out
vars == <<prog, out>>

Perms == {"public", "private"}
VarKinds == {"var", "param"}
ProcKinds == {"sub", "func"}
IfaceKinds == {"generic", "absint", "operator", "genbody",     \* genbody: a generic interface holding an interface body
               "opeq"}                                          \* a generic spec spelled with "=": operator(==), operator(/=), assignment(=)
ModKinds == VarKinds \cup {"type", "ctype"} \cup ProcKinds \cup IfaceKinds      \* ctype: a type with a constructor interface of its name
AttrsOf(k) == CASE k = "var"   -> {"none", "public", "private", "protected"}
                [] k = "param" -> {"none", "public", "private"}
                [] k \in {"type", "ctype"} -> {"none", "public", "private"}
                [] OTHER       -> {"none"}
BindForms == {"single", "multi", "generic", "deferred"}

Bare(p)          == [s |-> "bare", p |-> p]
Decl(k, n, a)    == [s |-> "decl", kind |-> k, name |-> n, attr |-> a]
Acc(p, n)        == [s |-> "acc", p |-> p, name |-> n]
TypeHead(a)      == [s |-> "typehead", attr |-> a]
Comp(n, a)       == [s |-> "comp", name |-> n, attr |-> a]
Contains         == [s |-> "contains"]
Bind(n, a, f)    == [s |-> "bind", name |-> n, attr |-> a, form |-> f]

Idx(P(_)) == {i \in 1..Len(prog) : P(prog[i])}
Has(P(_)) == Idx(P) # {}
Declared == {prog[i].name : i \in Idx(LAMBDA x : x.s \in {"decl", "comp", "bind"})}
Accessed == {prog[i].name : i \in Idx(LAMBDA x : x.s = "acc" /\ x.p \in Perms)}
ProtStmt == {prog[i].name : i \in Idx(LAMBDA x : x.s = "acc" /\ x.p = "protected")}
DeclOf(n) == prog[CHOOSE i \in Idx(LAMBDA x : x.s \in {"decl", "comp", "bind"} /\ x.name = n) : TRUE]
AfterContains == Has(LAMBDA x : x.s = "contains")

Init == prog = <<>> /\ out = <<>>

(* ---- productions -------------------------------------------------------- *)
AddBare(p) ==
  /\ Mode \in {"module", "type"}
  /\ ~Has(LAMBDA x : x.s = "bare") /\ ~Has(LAMBDA x : x.s = "typehead")
  /\ prog' = Append(prog, Bare(p)) /\ UNCHANGED out

AddDecl(k, n, a) ==
  /\ Mode \in {"module", "submodule"}
  /\ n \notin Declared /\ a \in AttrsOf(k)
  /\ (Mode = "submodule") => a = "none"
  /\ (a \in Perms) => n \notin Accessed          \* accessibility is given at most once
  /\ (a = "protected") => n \notin ProtStmt
  /\ prog' = Append(prog, Decl(k, n, a)) /\ UNCHANGED out

AddAcc(p, n) ==
  /\ Mode = "module"
  /\ IF p = "protected"
     THEN /\ n \notin ProtStmt
          /\ (n \in Declared => DeclOf(n).kind = "var" /\ DeclOf(n).attr # "protected")
     ELSE /\ n \notin Accessed
          /\ (n \in Declared => DeclOf(n).attr \notin Perms)
  /\ prog' = Append(prog, Acc(p, n)) /\ UNCHANGED out

(* a derived type with its two independent defaults *)
AddTypeHead(a) ==
  /\ Mode = "type" /\ ~Has(LAMBDA x : x.s = "typehead")
  /\ prog' = Append(prog, TypeHead(a)) /\ UNCHANGED out
AddTypePrivate ==
  /\ Mode = "type" /\ Has(LAMBDA x : x.s = "typehead")
  /\ prog[Len(prog)].s \in {"typehead", "contains"}       \* PRIVATE comes first in each part
  /\ prog' = Append(prog, [s |-> "tprivate"]) /\ UNCHANGED out
AddComp(n, a) ==
  /\ Mode = "type" /\ Has(LAMBDA x : x.s = "typehead") /\ ~AfterContains
  /\ n \notin Declared
  /\ prog' = Append(prog, Comp(n, a)) /\ UNCHANGED out
AddContains ==
  /\ Mode = "type" /\ Has(LAMBDA x : x.s = "typehead") /\ ~AfterContains
  /\ prog' = Append(prog, Contains) /\ UNCHANGED out
AddBind(n, a, f) ==
  /\ Mode = "type" /\ AfterContains /\ n \notin Declared
  /\ prog' = Append(prog, Bind(n, a, f)) /\ UNCHANGED out

(* every access statement names a declared entity; a type has a head *)
Complete == /\ (Accessed \cup ProtStmt) \subseteq Declared
            /\ \A n \in ProtStmt : DeclOf(n).kind = "var"
            /\ (Mode = "type") => Has(LAMBDA x : x.s = "typehead")

(* ---- Ref: the rule ------------------------------------------------------- *)
ScopeDefault ==
  IF Mode = "submodule" THEN "private"
  ELSE IF Has(LAMBDA x : x.s = "bare" /\ x.p = "private") THEN "private" ELSE "public"

AccOf(n) == prog[CHOOSE i \in Idx(LAMBDA x : x.s = "acc" /\ x.p \in Perms /\ x.name = n) : TRUE].p

RefModuleEntity(n) ==
  LET d    == DeclOf(n)
      base == IF d.attr \in Perms THEN d.attr
              ELSE IF n \in Accessed THEN AccOf(n) ELSE ScopeDefault
      prot == d.attr = "protected" \/ n \in ProtStmt
  IN IF ~prot THEN {base}
     ELSE IF base = "public" THEN {"protected"} ELSE {"private", "protected"}

TypePrivAt(part) ==   \* part = "comp" | "bind": is there a PRIVATE statement in that part
  \E i \in 1..Len(prog) : /\ prog[i].s = "tprivate"
                          /\ IF part = "comp" THEN prog[i - 1].s = "typehead" ELSE prog[i - 1].s = "contains"

RefTypeChild(n) ==
  LET d == DeclOf(n) IN
  IF d.attr \in Perms THEN {d.attr}
  ELSE IF TypePrivAt(IF d.s = "comp" THEN "comp" ELSE "bind") THEN {"private"} ELSE {"public"}

RefTypeItself ==
  LET h == prog[CHOOSE i \in Idx(LAMBDA x : x.s = "typehead") : TRUE] IN
  IF h.attr \in Perms THEN h.attr ELSE ScopeDefault

Ref == [n \in Declared |-> IF DeclOf(n).s = "decl" THEN RefModuleEntity(n) ELSE RefTypeChild(n)]

(* the specific procedure declared by an interface body inside a generic interface is an entity of the module in *)
(* its own right: no access statement names it here, so it has the default accessibility of the scoping unit,    *)
(* whatever the accessibility of the generic name                                                                  *)
WithBody == {n \in Declared : DeclOf(n).s = "decl" /\ DeclOf(n).kind = "genbody"}
RefSpecific == [n \in WithBody |-> {ScopeDefault}]

ScopeDefaultAtStart == IF Mode = "submodule" THEN "private" ELSE "public"

(* ---- Impl: the mechanism -------------------------------------------------- *)
(* state: cur = default in force for children read from here on; ents = what  *)
(* each declaration captured; a later attr_dict pass applies access statements *)
RECURSIVE ImplFold(_, _, _)
ImplFold(i, cur, ents) ==
  IF i > Len(prog) THEN ents
  ELSE LET x == prog[i] IN
    CASE x.s = "bare"     -> ImplFold(i + 1, x.p, ents)
      [] x.s = "typehead" -> ImplFold(i + 1, "public", ents)           \* child_permission restarts
      [] x.s = "contains" -> ImplFold(i + 1, "public", ents)
      [] x.s = "tprivate" -> ImplFold(i + 1, "private", ents)
      [] x.s \in {"decl", "comp", "bind"} ->
           ImplFold(i + 1, cur, ents @@ (x.name :> (IF x.attr = "none" THEN cur ELSE x.attr)))
      [] OTHER -> ImplFold(i + 1, cur, ents)

ImplCaptured ==
  IF "LatePrivate" \in Dev \/ Mode = "type"
  THEN ImplFold(1, ScopeDefaultAtStart, << >>)
  ELSE ImplFold(1, ScopeDefault, << >>)

ImplProcsUseFinal(n) ==   \* procedures are read after CONTAINS: they always see the final default
  DeclOf(n).s = "decl" /\ DeclOf(n).kind \in ProcKinds

RECURSIVE ApplyAttrDict(_, _)
ApplyAttrDict(i, ents) ==      \* as built: one slot, the last statement naming the entity wins
  IF i > Len(prog) THEN ents
  ELSE IF prog[i].s = "acc" /\ prog[i].name \in DOMAIN ents
       THEN ApplyAttrDict(i + 1, [ents EXCEPT ![prog[i].name] = prog[i].p])
       ELSE ApplyAttrDict(i + 1, ents)

IsProt(n) == DeclOf(n).s = "decl" /\ (DeclOf(n).attr = "protected" \/ n \in ProtStmt)

Impl ==
  LET cap  == ImplCaptured
      cap2 == [n \in DOMAIN cap |->
                 IF ImplProcsUseFinal(n) /\ DeclOf(n).attr = "none" THEN ScopeDefault ELSE cap[n]]
  IN IF "ProtectedSlot" \in Dev THEN ApplyAttrDict(1, cap2)
     ELSE \* accessibility and PROTECTED kept apart, combined only for display
       [n \in DOMAIN cap2 |->
          LET base0 == IF cap2[n] = "protected" THEN ScopeDefault ELSE cap2[n]
              base  == IF n \in Accessed THEN AccOf(n) ELSE base0
          IN IF IsProt(n) /\ base = "public" THEN "protected" ELSE base]

ImplSpecific == [n \in WithBody |-> ImplCaptured[n]]      \* the body is read with the block: it captures the default in force there

(* ---- properties ------------------------------------------------------------ *)
ImplRefines == Complete => /\ \A n \in Declared : Impl[n] \in Ref[n]
                           /\ \A n \in WithBody : ImplSpecific[n] \in RefSpecific[n]

(* the recorded finding explains every as-built deviation inside the bound:     *)
(* a mismatch occurs only for an entity without own accessibility that is       *)
(* declared before a bare access statement                                      *)
DeclIndex(n) == CHOOSE i \in Idx(LAMBDA x : x.s \in {"decl", "comp", "bind"} /\ x.name = n) : TRUE
LatePrivateCase(n) ==
  /\ Mode = "module" /\ DeclOf(n).attr \in {"none", "protected"} /\ n \notin Accessed
  /\ DeclOf(n).kind \notin ProcKinds
  /\ \E i \in Idx(LAMBDA x : x.s = "bare") : i > DeclIndex(n)
AccIndex(n) == CHOOSE i \in Idx(LAMBDA x : x.s = "acc" /\ x.p \in Perms /\ x.name = n) : TRUE
ProtectedSlotCase(n) ==     \* PROTECTED variable whose explicit PUBLIC statement is read last
  /\ IsProt(n) /\ n \in Accessed /\ AccOf(n) = "public"
  /\ \A i \in Idx(LAMBDA x : x.s = "acc" /\ x.p = "protected" /\ x.name = n) : i < AccIndex(n)
LateBody(n) == Mode = "module" /\ \E i \in Idx(LAMBDA x : x.s = "bare") : i > DeclIndex(n)
OnlyKnownDeviations == Complete => /\ \A n \in Declared :
                                        (Impl[n] \notin Ref[n]) => (LatePrivateCase(n) \/ ProtectedSlotCase(n))
                                   /\ \A n \in WithBody : (ImplSpecific[n] \notin RefSpecific[n]) => LateBody(n)

OrderIrrelevant ==    \* Ref never depends on where the bare statement stands (sanity of the rule)
  Complete => \A n \in Declared : Ref[n] # {}
NeverLate == ~(Complete /\ \E n \in Declared : LatePrivateCase(n))      \* vacuity guard
(* ---- emit the case: reference, model prediction, finding predicates ------- *)
Finish ==
  /\ out = <<>> /\ Complete /\ Declared # {}
  /\ out' = [ref |-> Ref, impl |-> Impl,
             late |-> {n \in Declared : LatePrivateCase(n)},
             pslot |-> {n \in Declared : ProtectedSlotCase(n)},
             tref |-> IF Mode = "type" THEN RefTypeItself ELSE "none",
             sref |-> RefSpecific, simpl |-> ImplSpecific, slate |-> {n \in WithBody : LateBody(n)}]
  /\ UNCHANGED prog

Next ==
  \/ Finish
  \/ /\ Len(prog) < MaxStmts /\ out = <<>>
     /\ \/ \E p \in Perms : AddBare(p)
        \/ \E k \in ModKinds, n \in Names : \E a \in AttrsOf(k) : AddDecl(k, n, a)
        \/ \E p \in Perms \cup {"protected"}, n \in Names : AddAcc(p, n)
        \/ \E a \in {"none", "public", "private"} : AddTypeHead(a)
        \/ AddTypePrivate
        \/ \E n \in Names, a \in {"none", "public", "private"} : AddComp(n, a)
        \/ AddContains
        \/ \E n \in Names, a \in {"none", "public", "private"}, f \in BindForms : AddBind(n, a, f)

Spec == Init /\ [][Next]_vars

=============================================================================
