------------------------------- MODULE Program -------------------------------
(***************************************************************************)
(* C01: the abstract program model.  A case is one declared construct      *)
(* described by its declared facts (what the documentation must report)    *)
(* plus the surface spelling chosen for it.  Four slices of the grammar,   *)
(* each enumerated completely within its stated alphabet:                  *)
(*   "decl"   one data declaration: intrinsic / derived / procedure type,  *)
(*            kind and length parameters, attribute set, each attribute on *)
(*            the declaration or as a separate statement, dimensions on    *)
(*            the entity / as attribute / by statement, initial value      *)
(*   "unit"   one program unit or procedure: kind, argument list, result   *)
(*            form, prefixes, END spelling, contained procedures           *)
(*   "type"   one derived type: header attributes, components, bindings    *)
(*            (specific, renamed, deferred, generic), finaliser            *)
(*   "iface"  interface blocks (generic / operator / assignment, abstract, *)
(*            explicit), enum, common blocks, namelist                     *)
(*   "multi"  one declaration statement naming one to three entities, each *)
(*            with its own dimensions / initial value / character length,  *)
(*            with or without "::", with a DIMENSION attribute             *)
(*   "head"   one procedure heading: result type forms in front of          *)
(*            FUNCTION, prefixes in either order, RESULT clause, BIND(C)   *)
(* The reference observable is the declared-facts part of the case         *)
(* (`facts`), which by construction does not mention `spelling`:           *)
(* SpellingIndependence.                                                   *)
(***************************************************************************)
EXTENDS Naturals, Sequences, FiniteSets, TLC

CONSTANT Slice

(* how a statement that contains a comma is laid out: on one line; continued after the comma; continued with a blank *)
(* line and a comment-only line between the two parts and a leading "&" on the continuation                          *)
Layouts == {"plain", "cont", "contgap"}

VARIABLES facts, spelling, phase
vars == <<facts, spelling, phase>>

(* ---- declaration slice ------------------------------------------------------------ *)
Bases == {"integer", "real", "complex", "logical", "character", "doubleprecision", "type", "class", "procedure"}
Numeric == {"integer", "real", "complex", "logical"}
KindSp(b) == IF b \in Numeric THEN {"none", "star", "paren", "kindeq"}
             ELSE IF b = "character" THEN {"none", "star", "paren", "leneq", "lenkind", "kindlen", "assumed", "deferred"}
             ELSE {"none"}
Roles == {"local", "dummy", "component"}
AttrsFor(role) == CASE role = "local" -> {"allocatable", "pointer", "target", "save", "parameter", "volatile", "asynchronous"}
                    [] role = "dummy" -> {"allocatable", "pointer", "target", "optional", "value", "volatile", "intent_in", "intent_out", "intent_inout"}
                    [] role = "component" -> {"allocatable", "pointer"}
StmtForm == {"allocatable", "pointer", "target", "save", "parameter", "volatile", "asynchronous", "optional", "value", "intent_in", "intent_out", "intent_inout"}
Intents == {"intent_in", "intent_out", "intent_inout"}

WFDecl(d) ==
  /\ d.kindsp \in KindSp(d.base)
  /\ d.attrs \subseteq AttrsFor(d.role)
  /\ Cardinality(d.attrs) <= 2
  /\ Cardinality(d.attrs \cap Intents) <= 1
  /\ ~({"allocatable", "pointer"} \subseteq d.attrs) /\ ~({"parameter", "allocatable"} \subseteq d.attrs) /\ ~({"parameter", "pointer"} \subseteq d.attrs)
  /\ ~({"value", "pointer"} \subseteq d.attrs) /\ ~({"value", "allocatable"} \subseteq d.attrs) /\ ~({"parameter", "target"} \subseteq d.attrs)
  /\ ~({"parameter", "save"} \subseteq d.attrs) /\ ~({"parameter", "volatile"} \subseteq d.attrs) /\ ~({"parameter", "asynchronous"} \subseteq d.attrs)
  /\ ~({"pointer", "target"} \subseteq d.attrs) /\ ~({"value", "intent_out"} \subseteq d.attrs) /\ ~({"value", "intent_inout"} \subseteq d.attrs)
  /\ ~({"value", "volatile"} \subseteq d.attrs) /\ ~({"value", "optional"} \subseteq d.attrs)
  /\ (d.base = "procedure") => (d.attrs \subseteq {"pointer", "optional", "save"} /\ d.dims = "none" /\ d.init \in {"none", "null"}
                                 /\ (d.role # "dummy" => "pointer" \in d.attrs))
  /\ (d.base = "class") => (d.role = "dummy" \/ d.attrs \cap {"allocatable", "pointer"} # {}) /\ "parameter" \notin d.attrs /\ "value" \notin d.attrs
  /\ (d.base = "type") => "parameter" \notin d.attrs
  /\ ("parameter" \in d.attrs) => d.init \in {"value", "array"}
  /\ (d.init = "null") => "pointer" \in d.attrs
  /\ (d.init = "value") => (d.role # "dummy" /\ d.base \in Numeric \cup {"character", "doubleprecision"} /\ d.attrs \cap {"allocatable", "pointer"} = {} /\ d.dims = "none")
  /\ (d.init = "array") => (d.role # "dummy" /\ d.base \in Numeric \cup {"character", "doubleprecision"} /\ d.attrs \cap {"allocatable", "pointer"} = {} /\ d.dims = "explicit"
                            /\ ("parameter" \in d.attrs => d.place["parameter"] = "decl"))
  /\ (d.kindsp \in {"assumed"}) => (d.role = "dummy" \/ "parameter" \in d.attrs)
  /\ (d.kindsp = "deferred") => (d.attrs \cap {"allocatable", "pointer"} # {})
  /\ (d.dims = "deferredshape") <=> (d.attrs \cap {"allocatable", "pointer"} # {} /\ d.dims # "none")
  /\ (d.base = "doubleprecision") => d.kindsp = "none"
  /\ ("value" \in d.attrs) => (d.dims = "none" /\ d.base \in Numeric)
  /\ ("optional" \in d.attrs \/ d.attrs \cap Intents # {}) => d.role = "dummy"
  /\ (d.dims = "none") => d.dimform = "none"
  /\ (d.dims # "none") => d.dimform # "none"
  /\ (d.role = "component") => (d.dimform # "stmt" /\ \A a \in d.attrs : d.place[a] = "decl")
  /\ \A a \in d.attrs : d.place[a] \in (IF a \in StmtForm THEN {"decl", "stmt"} ELSE {"decl"})
  /\ ("parameter" \in d.attrs /\ d.place["parameter"] = "stmt") => d.kindsp # "assumed"
  /\ DOMAIN d.place = d.attrs

(* ---- unit slice -------------------------------------------------------------------- *)
UnitKinds == {"module", "program", "subroutine", "function", "blockdata", "submodule"}
EndSp == {"bare", "kind", "kindname", "joined", "joinedname"}          \* end / end subroutine / end subroutine n / endsubroutine / endsubroutine n
WFUnit(u) ==
  /\ (u.kind \notin {"subroutine", "function"}) => (u.nargs = 0 /\ u.argdecl = "none" /\ u.resform = "none" /\ u.prefix = {})
  /\ (u.kind = "subroutine") => u.resform = "none"
  /\ (u.kind = "function") => u.resform # "none"
  /\ (u.nargs = 0) <=> (u.argdecl = "none")
  /\ (u.kind \in {"blockdata"}) => (u.inner = 0)
  /\ (u.kind \in {"module", "submodule"}) => u.where = "file"
  /\ (u.where = "module") => u.kind \in {"subroutine", "function"}
  /\ (~u.named) => u.kind \in {"program", "blockdata"}
  /\ (~u.named) => u.endsp \in {"bare", "kind", "joined"}
  /\ ({"elemental", "recursive"} \subseteq u.prefix) = FALSE
  /\ (u.resform = "prefix") => "elemental" \notin u.prefix \/ TRUE

(* ---- type slice ---------------------------------------------------------------------- *)
WFType(t) ==
  /\ (t.deferred) => t.abstract
  /\ (t.bindc) => (~t.extends /\ ~t.abstract /\ t.nbind = 0 /\ ~t.final /\ ~t.generic /\ ~t.deferred /\ ~t.sequence)
  /\ (t.sequence) => (~t.extends /\ t.nbind = 0 /\ ~t.final /\ ~t.generic /\ ~t.deferred /\ ~t.abstract)
  /\ (t.generic) => t.nbind >= 1
  /\ (t.renamed) => t.nbind >= 1

(* ---- interface slice --------------------------------------------------------------------- *)
IfaceKinds == {"generic_modproc", "generic_body", "operator", "assignment", "abstract", "explicit", "enum", "common1", "common2", "commonblank", "namelist"}

(* ---- multi-entity declaration statements ----------------------------------------------------- *)
EntDims == {"none", "d3", "d22"}
MultiEnt(b, dc) == [dims : EntDims, init : (IF dc THEN {"none", "value"} ELSE {"none"}), clen : (IF b = "character" THEN {"none", "star5", "starparen"} ELSE {"none"})]
WFMulti(m) ==
  /\ Len(m.ents) \in 1..3
  /\ (m.attrdim # "none") => m.dcolon
  /\ \A i \in 1..Len(m.ents) : (m.ents[i].init = "value") => (m.ents[i].dims = "none" /\ m.attrdim = "none")

(* ---- procedure headings ----------------------------------------------------------------------- *)
ResTypes == {"decl", "integer", "realparen", "realstar", "realkind", "double", "char5", "charstar", "charlenkind", "typet", "logical"}
WFHead(h) ==
  /\ (h.kind = "subroutine") => (h.restype = "decl" /\ ~h.resclause)
  /\ Cardinality(h.prefix) <= 2
  /\ ~({"pure", "impure"} \subseteq h.prefix) /\ ~({"elemental", "recursive"} \subseteq h.prefix)
  /\ (h.bindc # "none") => ("elemental" \notin h.prefix /\ h.restype \in {"decl", "integer", "realparen", "logical"})
  /\ (h.restype = "charstar") => FALSE \/ h.kind = "function"

Init == facts = << >> /\ spelling = << >> /\ phase = "init"
Choose ==
  /\ phase = "init"
  /\ CASE Slice = "decl" ->
            \E b \in Bases, r \in Roles : \E ks \in KindSp(b) :
            \E as \in {S \in SUBSET AttrsFor(r) : Cardinality(S) <= 2} :
            \E dm \in {"none", "explicit", "deferredshape"}, df \in {"none", "entity", "attr", "stmt"}, ini \in {"none", "value", "null", "array"} :
            \E pl \in [as -> {"decl", "stmt"}] :
               LET dd == [base |-> b, kindsp |-> ks, role |-> r, attrs |-> as, dims |-> dm, dimform |-> df, init |-> ini, place |-> pl] IN
               /\ WFDecl(dd) /\ facts' = dd
               /\ \E up \in BOOLEAN, lay \in Layouts, ct \in (IF ini = "array" THEN {"bracket", "slash", "typed"} ELSE {"bracket"}) :
                     spelling' = [upper |-> up, layout |-> lay, ctor |-> ct]
       [] Slice = "unit" ->
            \E u \in [kind : UnitKinds, nargs : 0..2, argdecl : {"none", "typed", "intent", "implicit", "dummyproc", "dummyprocopt"},
                      resform : {"none", "prefix", "result", "resultdecl", "namedecl"}, prefix : SUBSET {"pure", "elemental", "recursive"},
                      inner : 0..2, named : BOOLEAN, where : {"file", "module"}, endsp : EndSp] :
               /\ WFUnit(u) /\ Cardinality(u.prefix) <= 1
               /\ facts' = [x \in DOMAIN u \ {"endsp"} |-> u[x]]
               /\ \E up \in BOOLEAN : spelling' = [upper |-> up, endsp |-> u.endsp, layout |-> "plain"]
       [] Slice = "type" ->
            \E t \in [extends : BOOLEAN, abstract : BOOLEAN, bindc : BOOLEAN, access : {"none", "public", "private"}, sequence : BOOLEAN,
                      ncomp : 0..2, nbind : 0..2, renamed : BOOLEAN, deferred : BOOLEAN, generic : BOOLEAN, final : BOOLEAN, privcomp : BOOLEAN] :
               /\ WFType(t) /\ facts' = t
               /\ \E up \in BOOLEAN, dc \in BOOLEAN, lay \in Layouts : spelling' = [upper |-> up, dcolon |-> dc, layout |-> lay]
       [] Slice = "multi" ->
            \E b \in {"integer", "real", "character"}, dc \in BOOLEAN, n \in 1..3, ad \in {"none", "d4"}, tl \in {"none", "kind"} :
            \E es \in [1..n -> MultiEnt(b, dc)] :
               LET m == [base |-> b, dcolon |-> dc, attrdim |-> ad, typelen |-> tl, ents |-> es] IN
               /\ WFMulti(m) /\ facts' = [x \in DOMAIN m \ {"dcolon"} |-> m[x]]
               \* semi: one statement per entity, all on one line, separated by ";" (the same declared facts)
               /\ \E up \in BOOLEAN, tight \in BOOLEAN, lay \in Layouts, semi \in BOOLEAN :
                     /\ (semi => lay = "plain" /\ n >= 2)
                     /\ spelling' = [upper |-> up, tight |-> tight, dcolon |-> dc, layout |-> lay, semi |-> semi]
       [] Slice = "head" ->
            \E h \in [kind : {"function", "subroutine"}, restype : ResTypes, prefix : SUBSET {"pure", "impure", "elemental", "recursive"},
                      resclause : BOOLEAN, bindc : {"none", "plain", "named"}, nargs : 0..1] :
               /\ WFHead(h) /\ facts' = h
               /\ \E up \in BOOLEAN, tf \in BOOLEAN, lay \in Layouts : spelling' = [upper |-> up, typefirst |-> tf, layout |-> lay]
       [] Slice = "iface" ->
            \E k \in IfaceKinds, n \in 1..2 :
               /\ facts' = [kind |-> k, n |-> n]
               /\ \E up \in BOOLEAN, lay \in Layouts : spelling' = [upper |-> up, layout |-> lay]
  /\ phase' = "done"
Next == Choose
Spec == Init /\ [][Next]_vars

(* the reference observable never mentions the spelling *)
SpellingIndependence == phase = "done" => (DOMAIN facts \cap DOMAIN spelling = {})
NeverStmtForm == ~(phase = "done" /\ Slice = "decl" /\ \E a \in facts.attrs : facts.place[a] = "stmt")    \* vacuity guard
=============================================================================
