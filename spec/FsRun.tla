------------------------------- MODULE FsRun -------------------------------
(***************************************************************************)
(* C19: a run creates / modifies / deletes files only below the resolved   *)
(* output directory (and graph directory), also when it fails at any       *)
(* point, and refuses to start - before deleting anything - when a source  *)
(* directory lies inside the output directory.                             *)
(*                                                                         *)
(* Abstract file system: directories are named by small integers; a path   *)
(* as configured is a pair <<lexical name, resolved directory>> (symlinks  *)
(* and ".." are what make the two differ).  IsBelow is the ancestor        *)
(* relation on resolved directories, given by the constant Parent.         *)
(*                                                                         *)
(* The run (ford/__init__.py: parse_arguments, ford/output.py: writeout):  *)
(*   Normalise  -> Refuse | Wipe -> Step(1) .. Step(n) -> Done,            *)
(*   Crash possible before every file-system operation.                    *)
(*   Dev "NoResolve"     the refusal test compares unresolved names        *)
(*   Dev "LastSrcOnly"   the refusal test looks at the last src_dir only   *)
(***************************************************************************)
EXTENDS Naturals, Sequences, FiniteSets, TLC

CONSTANTS Dirs,        \* resolved directories, e.g. 1..6
          Parent,      \* Dirs -> Dirs \cup {0}   (0 = above the sandbox)
          Placements,  \* set of records [out, outlex, srcs (seq of [res, lex]), graph] to explore
          NSteps,      \* number of write-out steps after the wipe
          Dev

VARIABLES plc, phase, step, touched, deleted, crashed
vars == <<plc, phase, step, touched, deleted, crashed>>

RECURSIVE Anc(_)
Anc(d) == IF d = 0 THEN {} ELSE {d} \cup Anc(Parent[d])
IsBelowOrEq(d, root) == root \in Anc(d)

Roots(p) == {p.out} \cup (IF p.graph = 0 THEN {} ELSE {p.graph})
Allowed(p, d) == \E r \in Roots(p) : IsBelowOrEq(d, r)

(* must the run refuse?  some source directory is the output directory or below it *)
MustRefuse(p) == \E i \in 1..Len(p.srcs) : IsBelowOrEq(p.srcs[i].res, p.out)

(* the refusal test as implemented *)
ImplRefuses(p) ==
  LET idx == IF "LastSrcOnly" \in Dev THEN {Len(p.srcs)} ELSE 1..Len(p.srcs)
  IN \E i \in idx :
       IF "NoResolve" \in Dev
       THEN p.srcs[i].lexbelow          \* what a purely textual comparison sees
       ELSE IsBelowOrEq(p.srcs[i].res, p.out)

Init == plc \in Placements /\ phase = "start" /\ step = 0 /\ touched = {} /\ deleted = {} /\ crashed = FALSE

Refuse == /\ phase = "start" /\ ImplRefuses(plc) /\ phase' = "refused"
          /\ UNCHANGED <<plc, step, touched, deleted, crashed>>
Wipe ==   /\ phase = "start" /\ ~ImplRefuses(plc)
          \* rmtree(output_dir): everything at or below the resolved output directory is deleted
          /\ deleted' = {d \in Dirs : IsBelowOrEq(d, plc.out)}
          /\ touched' = touched \cup {plc.out}
          /\ phase' = "writing" /\ UNCHANGED <<plc, step, crashed>>
Write ==  /\ phase = "writing" /\ step < NSteps
          \* every write-out step derives its target from output_dir (or graph_dir for graph files)
          /\ \E tgt \in Roots(plc) : touched' = touched \cup {tgt}
          /\ step' = step + 1 /\ UNCHANGED <<plc, phase, deleted, crashed>>
Finish == /\ phase = "writing" /\ step = NSteps /\ phase' = "done"
          /\ UNCHANGED <<plc, step, touched, deleted, crashed>>
Crash ==  /\ phase \in {"start", "writing"} /\ ~crashed
          /\ crashed' = TRUE /\ phase' = "failed"
          /\ UNCHANGED <<plc, step, touched, deleted>>
Next == Refuse \/ Wipe \/ Write \/ Finish \/ Crash
Spec == Init /\ [][Next]_vars

(* ---- properties ------------------------------------------------------------- *)
TouchedUnderRoots == \A d \in touched \cup deleted : Allowed(plc, d)
SourcesSurvive == \A i \in 1..Len(plc.srcs) : plc.srcs[i].res \notin deleted
RefusedBeforeAnyDelete == (phase = "refused") => (touched = {} /\ deleted = {})
RefusesWhenItMust == (phase \in {"writing", "done"}) => ~MustRefuse(plc)
NeverRefuses == phase # "refused"      \* vacuity guard
=============================================================================
