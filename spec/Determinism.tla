---------------------------- MODULE Determinism ----------------------------
(***************************************************************************)
(* C12 (schedule model): a run discovers the source files in some order    *)
(* (`find_all_files` returns a set: the order depends on hash              *)
(* randomisation and on the file system), parses them in that order, and   *)
(* hands out page names first come, first served (Names.tla).  The output  *)
(* must be a function of the project alone.                                *)
(*   Dev "UnsortedDiscovery": files are parsed in discovery order          *)
(*   Dev = {}: files are parsed in sorted order whatever the discovery     *)
(***************************************************************************)
EXTENDS Naturals, Sequences, FiniteSets, TLC

CONSTANTS Files,     \* set of file ids (naturals, sorted order = numeric order)
          NameOf,    \* file -> the (clashing) entity name it defines
          Dev

VARIABLES order, phase, stems
vars == <<order, phase, stems>>

Perms == {p \in [1..Cardinality(Files) -> Files] : \A i, j \in 1..Cardinality(Files) : i # j => p[i] # p[j]}
RECURSIVE Ascending(_)
Ascending(S) == IF S = {} THEN <<>> ELSE LET m == CHOOSE x \in S : \A y \in S : x <= y IN <<m>> \o Ascending(S \ {m})

(* first come, first served numbering along a parse order *)
RECURSIVE Number(_, _, _)
Number(seq, i, acc) ==
  IF i > Len(seq) THEN acc
  ELSE LET f == seq[i]
           n == Cardinality({g \in DOMAIN acc : NameOf[g] = NameOf[f]}) + 1
       IN Number(seq, i + 1, acc @@ (f :> <<NameOf[f], n>>))

ParseOrder(disc) == IF "UnsortedDiscovery" \in Dev THEN disc ELSE Ascending(Files)

Init == order = <<>> /\ phase = "discover" /\ stems = << >>
Discover == /\ phase = "discover" /\ \E p \in Perms : order' = p
            /\ phase' = "parse" /\ UNCHANGED stems
Parse == /\ phase = "parse" /\ stems' = Number(ParseOrder(order), 1, << >>)
         /\ phase' = "done" /\ UNCHANGED order
Next == Discover \/ Parse
Spec == Init /\ [][Next]_vars

Canonical == Number(Ascending(Files), 1, << >>)
Deterministic == phase = "done" => stems = Canonical
=============================================================================
