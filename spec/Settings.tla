------------------------------ MODULE Settings ------------------------------
(***************************************************************************)
(* C15: the effective value of an option.  A configuration case fixes, for *)
(* one option of one type class, which sources define it - the project     *)
(* file (written as Markdown metadata or as fpm.toml [extra.ford]), the    *)
(* --config TOML string, a dedicated command-line flag - and the working   *)
(* directory.  Ref (options guide, --config help): command line > --config *)
(* > project file > default; the file format and the working directory     *)
(* never matter; relative paths are anchored at the project file.          *)
(***************************************************************************)
EXTENDS Naturals, FiniteSets, TLC

CONSTANTS Classes,      \* option type classes
          CliClasses    \* classes for which some option has its own command-line flag

VARIABLES case, phase, out
vars == <<case, phase, out>>

Init == case = << >> /\ phase = "init" /\ out = << >>
Choose ==
  /\ phase = "init"
  /\ \E c \in Classes, fmt \in {"md", "toml"}, file \in BOOLEAN, cfg \in BOOLEAN, cli \in BOOLEAN, cwd \in {"project", "elsewhere"} :
       /\ cli => c \in CliClasses
       /\ case' = [cls |-> c, fmt |-> fmt, file |-> file, cfg |-> cfg, cli |-> cli, cwd |-> cwd]
  /\ phase' = "chosen" /\ UNCHANGED out

Winner(k) == IF k.cli THEN "cli" ELSE IF k.cfg THEN "config" ELSE IF k.file THEN "file" ELSE "default"

Emit == /\ phase = "chosen" /\ phase' = "done"
        /\ out' = [winner |-> Winner(case), anchored |-> "project"]
        /\ UNCHANGED case
Next == Choose \/ Emit
Spec == Init /\ [][Next]_vars

(* the reference does not look at the format or the working directory *)
FormatIndependent ==
  phase = "chosen" => Winner(case) = Winner([case EXCEPT !.fmt = "md"]) /\ Winner(case) = Winner([case EXCEPT !.cwd = "project"])
Precedence == phase = "chosen" =>
  /\ case.cli => Winner(case) = "cli"
  /\ (~case.cli /\ case.cfg) => Winner(case) = "config"
  /\ (~case.cli /\ ~case.cfg /\ case.file) => Winner(case) = "file"
=============================================================================
