------------------------------ MODULE Nesting ------------------------------
(***************************************************************************)
(* C07: cross-references resolve to the entity Fortran scoping designates. *)
(*                                                                         *)
(* Scoping units (fixed tree, the interesting relations all occur in it):  *)
(*     M1  module               P1, P2  module procedures of M1 (siblings) *)
(*     I1  internal procedure of P1      M2  a second module               *)
(*     E1  external procedure                                              *)
(* A case chooses, for one name class (type / abstract interface /         *)
(* procedure), the set of scoping units that declare the name, and which   *)
(* scoping unit (if any) USEs M2.  Every scoping unit then refers to the   *)
(* name in every slot of its class.                                        *)
(*   Ref    F2018 19.3-19.5 (DESIGN.md B.5): local > use > host            *)
(*   Impl   FORD's per-scope tables: copy of the host's table, own         *)
(*          declarations added, USEd names merged in, children afterwards  *)
(*          Dev "SharedTables": the host's table is used by reference, so  *)
(*              declarations of children show up in the host and in        *)
(*              siblings correlated later (source order P1, I1, P2)        *)
(*          Dev "HostOverridesLocal": for procedures the host's table is   *)
(*              merged over the local one                                  *)
(***************************************************************************)
EXTENDS Naturals, Sequences, FiniteSets, TLC

CONSTANTS Class,    \* "type" | "absint" | "proc"
          Dev

VARIABLES decl, useAt, out, phase
vars == <<decl, useAt, out, phase>>

Scopes == {"M1", "P1", "I1", "P2", "M2", "E1"}
(* B1: a BLOCK construct in the executable part of P1.  It is a scoping unit that can declare a type or an       *)
(* abstract interface, nothing outside refers into it and nothing is its child: what it declares is visible      *)
(* nowhere else (F2018 11.1.4), so it must not change any resolution.                                            *)
Parent(s) == CASE s = "I1" -> "P1" [] s = "P1" -> "M1" [] s = "P2" -> "M1" [] s = "B1" -> "P1" [] OTHER -> "none"
(* where a name of the class can be declared *)
DeclSites == IF Class = "proc" THEN {"M1", "P1", "P2", "M2"}     \* module / internal procedures
             ELSE Scopes \cup {"B1"}
(* the scoping unit named s as a declaration site declares the name INSIDE s: *)
(* for Class = "proc", "M1" means a module procedure of M1 named f, "P1" an    *)
(* internal procedure of P1 named f, and so on                                *)
UseSites == {"none", "M1", "P1", "I1", "P2", "E1"}
RefSites == IF Class = "proc" THEN {"M1", "P1", "I1", "P2", "E1"} ELSE Scopes \ {"M2"}

RECURSIVE Chain(_)
Chain(s) == IF s = "none" THEN <<>> ELSE <<s>> \o Chain(Parent(s))

(* ---- Ref ---------------------------------------------------------------- *)
RECURSIVE RefResolveFrom(_)
RefResolveFrom(s) ==
  IF s = "none" THEN "unresolved"
  ELSE IF s \in decl THEN s
  ELSE IF useAt = s /\ "M2" \in decl THEN "M2"
  ELSE RefResolveFrom(Parent(s))
Ref == [s \in RefSites |-> RefResolveFrom(s)]

(* ---- Impl ---------------------------------------------------------------- *)
(* A table maps the (single) name to the declaring site or "unresolved".      *)
(* Correlation order inside M1: M1's own table, then P1 (then I1), then P2,   *)
(* then M1's own variables; references of a unit are resolved after its       *)
(* children have been correlated.                                             *)
Own(s, t)  == IF s \in decl THEN s ELSE t
Used(s, t) == IF useAt = s /\ "M2" \in decl THEN "M2" ELSE t
TableCopy(s, hostTable) ==
  IF Class = "proc" /\ "HostOverridesLocal" \in Dev
  THEN Used(s, IF hostTable # "unresolved" THEN hostTable ELSE Own(s, "unresolved"))
  ELSE Used(s, Own(s, hostTable))

ImplCopy ==
  LET m1 == TableCopy("M1", "unresolved")
      p1 == TableCopy("P1", m1)
      i1 == TableCopy("I1", p1)
      p2 == TableCopy("P2", m1)
      e1 == TableCopy("E1", "unresolved")
  IN [s \in RefSites |-> CASE s = "M1" -> m1 [] s = "P1" -> p1 [] s = "I1" -> i1 [] s = "P2" -> p2 [] s = "E1" -> e1]

(* shared dictionary: one cell for the whole M1 tree, written in correlate order;  *)
(* each unit's references read the cell after its own children are done           *)
ImplShared ==
  LET c0 == Used("M1", Own("M1", "unresolved"))         \* M1.correlate start
      c1 == Used("P1", Own("P1", c0))                   \* P1.correlate
      c2 == Used("I1", Own("I1", c1))                   \* I1.correlate; I1's references read c2
      \* P1's references read c2 (after recursing into I1)
      c3 == Used("P2", Own("P2", c2))                   \* P2.correlate; reads c3
      \* M1's own references are resolved last: read c3
      e1 == Used("E1", Own("E1", "unresolved"))
  IN [s \in RefSites |-> CASE s = "M1" -> c3 [] s = "P1" -> c2 [] s = "I1" -> c2 [] s = "P2" -> c3 [] s = "E1" -> e1]

(* slots resolved BEFORE the children are correlated (parent type of EXTENDS) read the cell earlier *)
ImplSharedEarly ==
  LET c0 == Used("M1", Own("M1", "unresolved"))
      c1 == Used("P1", Own("P1", c0))
      c2 == Used("I1", Own("I1", c1))
      c3 == Used("P2", Own("P2", c2))
      e1 == Used("E1", Own("E1", "unresolved"))
  IN [s \in RefSites |-> CASE s = "M1" -> c0 [] s = "P1" -> c1 [] s = "I1" -> c2 [] s = "P2" -> c3 [] s = "E1" -> e1]

Impl == IF "SharedTables" \in Dev /\ Class # "proc" THEN ImplShared ELSE ImplCopy
ImplEarly == IF "SharedTables" \in Dev /\ Class # "proc" THEN ImplSharedEarly ELSE ImplCopy

(* ---- generator -------------------------------------------------------------- *)
Legal ==   \* a scoping unit does not declare a name it also obtains by USE
  /\ (useAt # "none" /\ "M2" \in decl) => useAt \notin decl

Init == decl = {} /\ useAt = "none" /\ out = <<>> /\ phase = "init"
Choose ==
  /\ phase = "init"
  /\ \E d \in SUBSET DeclSites, u \in UseSites :
        /\ decl' = d /\ useAt' = u
        /\ phase' = "chosen" /\ UNCHANGED out
Emit ==
  /\ phase = "chosen" /\ Legal /\ phase' = "done"
  /\ out' = [ref |-> Ref, impl |-> Impl, early |-> ImplEarly]
  /\ UNCHANGED <<decl, useAt>>
Next == Choose \/ Emit
Spec == Init /\ [][Next]_vars

Complete == phase = "done"

(* ---- properties --------------------------------------------------------------- *)
ImplRefines == (phase = "chosen" /\ Legal) => Impl = Ref
InnermostWins == (phase = "chosen" /\ Legal) =>
  \A s \in RefSites : (s \in decl) => Ref[s] = s
SiblingInvisible == (phase = "chosen" /\ Legal) =>
  \A s \in RefSites : Ref[s] \in {"unresolved", "M2"} \cup {Chain(s)[i] : i \in 1..Len(Chain(s))}
UnresolvedStaysText == (phase = "chosen" /\ Legal) =>
  \A s \in RefSites : (\A i \in 1..Len(Chain(s)) : Chain(s)[i] \notin decl /\ ~(useAt = Chain(s)[i] /\ "M2" \in decl))
                        => Ref[s] = "unresolved"
BlockLocalInvisible == (phase = "chosen" /\ Legal) => \A s \in RefSites : Ref[s] # "B1"
NeverShadow == ~(phase = "chosen" /\ Legal /\ "I1" \in decl /\ "M1" \in decl)     \* vacuity guard
=============================================================================
