------------------------------- MODULE Display -------------------------------
(***************************************************************************)
(* C05: which entities the site documents.                                 *)
(*                                                                         *)
(* A fixed entity tree (file > module > variables / types / procedures /   *)
(* interfaces; type > components, bindings; procedure > local variable,    *)
(* internal procedure) with fixed accessibilities; a case chooses the      *)
(* project-wide `display`, an optional `display` override in the           *)
(* documentation of the file, the module, a type and a procedure,          *)
(* `proc_internals` and `hide_undoc`.                                      *)
(* Ref (user guide display / proc_internals / hide_undoc, DESIGN.md B.7):  *)
(*   D(x) = x's own display if given (ignored: `none` on files), else      *)
(*          D(parent(x)); at the root the project's display                *)
(*   a child e of x is selected iff x is selected, Perm(e) in D(x),        *)
(*   hide_undoc => e is documented, and x a procedure => proc_internals    *)
(*   files and the program units directly in them are always selected      *)
(***************************************************************************)
EXTENDS Naturals, FiniteSets, TLC

VARIABLES opt, phase, out
vars == <<opt, phase, out>>

Over == {"absent", "pub", "all", "priv", "prot", "none"}
ProjD == {"pub", "pubprot", "all", "priv"}
Set(o) == CASE o = "pub" -> {"public"} [] o = "pubprot" -> {"public", "protected"}
            [] o = "all" -> {"public", "protected", "private"} [] o = "priv" -> {"private"} [] o = "prot" -> {"protected"} [] o = "none" -> {}

(* entity -> [parent, perm, doc (documented?), kind] *)
E(p, perm, doc, kind) == [parent |-> p, perm |-> perm, doc |-> doc, kind |-> kind]
Ents == [
  file   |-> E("", "public", TRUE, "file"),
  m      |-> E("file", "public", TRUE, "module"),
  v_pub  |-> E("m", "public", TRUE, "var"),
  v_prv  |-> E("m", "private", TRUE, "var"),
  v_pro  |-> E("m", "protected", TRUE, "var"),
  u_pub  |-> E("m", "public", FALSE, "var"),            \* undocumented
  t_pub  |-> E("m", "public", TRUE, "type"),
  t_prv  |-> E("m", "private", TRUE, "type"),
  c_pub  |-> E("t_pub", "public", TRUE, "var"),
  c_prv  |-> E("t_pub", "private", TRUE, "var"),
  b_pub  |-> E("t_pub", "public", TRUE, "binding"),
  b_prv  |-> E("t_pub", "private", TRUE, "binding"),
  s_pub  |-> E("m", "public", TRUE, "proc"),
  s_prv  |-> E("m", "private", TRUE, "proc"),
  lv     |-> E("s_pub", "public", TRUE, "var"),          \* local variable of s_pub
  inner  |-> E("s_pub", "public", TRUE, "proc"),         \* internal procedure of s_pub
  g_pub  |-> E("m", "public", TRUE, "interface"),
  ai_prv |-> E("m", "private", TRUE, "absint"),
  en_pub |-> E("m", "public", TRUE, "var"),              \* enumerators of an ENUM in m: entities with an accessibility like any
  en_prv |-> E("m", "private", TRUE, "var"),             \* other named constant (F2018 7.6); en_prv is in a PRIVATE statement
  nl_prv |-> E("s_prv", "public", TRUE, "namelist"),      \* namelist group of the private procedure
  t_ext  |-> E("m", "public", TRUE, "type"),              \* public type that extends the private type t_prv (and inherits its binding)
  mpi    |-> E("m", "public", TRUE, "interface"),        \* interface of the separate module procedure mp, declared in m
  sm     |-> E("file", "public", TRUE, "submodule"),
  mp     |-> E("sm", "private", TRUE, "proc"),           \* separate module procedure implemented in the submodule
  mplv   |-> E("mp", "private", TRUE, "var")]            \* its local variable
Names == DOMAIN Ents

OverrideOf(x) == CASE x = "file" -> opt.ofile [] x = "m" -> opt.omod [] x = "t_pub" -> opt.otype [] x = "s_pub" -> opt.oproc [] OTHER -> "absent"

RECURSIVE D(_)
D(x) ==
  IF x = "" THEN Set(opt.proj)
  ELSE LET o == OverrideOf(x) IN
       IF o = "absent" \/ (x = "file" /\ o = "none") THEN D(Ents[x].parent)
       ELSE Set(o)

RECURSIVE Selected(_)
Selected(e) ==
  IF e \in {"file", "m", "sm"} THEN TRUE
  ELSE LET x == Ents[e].parent IN
       /\ Selected(x)
       /\ (Ents[e].kind = "namelist" \/ Ents[e].perm \in D(x))      \* a namelist group of a procedure has no accessibility of its own
       /\ (opt.hide_undoc => Ents[e].doc)
       /\ (Ents[x].kind = "proc" => opt.proc_internals)

Init == opt = << >> /\ phase = "init" /\ out = {}
Choose ==
  /\ phase = "init"
  /\ \E pr \in ProjD, f \in Over \ {"none"}, m \in Over, t \in Over, s \in Over, pi \in BOOLEAN, hu \in BOOLEAN :
       opt' = [proj |-> pr, ofile |-> f, omod |-> m, otype |-> t, oproc |-> s, proc_internals |-> pi, hide_undoc |-> hu]
  /\ phase' = "chosen" /\ UNCHANGED out
Emit == /\ phase = "chosen" /\ phase' = "done" /\ out' = {e \in Names : Selected(e)} /\ UNCHANGED opt
Next == Choose \/ Emit
Spec == Init /\ [][Next]_vars

(* ---- sanity of the rule -------------------------------------------------------- *)
UnselectedParentHidesChildren == phase = "chosen" => \A e \in Names \ {"file", "m", "sm"} : Selected(e) => Selected(Ents[e].parent)
InternalsNeedOption == phase = "chosen" => (~opt.proc_internals => (~Selected("lv") /\ ~Selected("inner") /\ ~Selected("mplv")))
UndocHidden == phase = "chosen" => (opt.hide_undoc => ~Selected("u_pub"))
NeverPrivateShown == ~(phase = "chosen" /\ Selected("c_prv"))      \* vacuity guard
=============================================================================
