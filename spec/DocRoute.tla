------------------------------ MODULE DocRoute ------------------------------
(***************************************************************************)
(* C03 (routing half): which entity each documentation comment lands on.   *)
(*                                                                         *)
(* A unit body is a sequence of documented entities.  Each entity is one   *)
(* statement ("simple": a declaration) or a statement with a closing       *)
(* statement after its documentation ("block": a type, an interface, a     *)
(* procedure).  Its documentation uses one of the documented placements    *)
(* (user guide "Indicating documentation"): after the statement (inline or *)
(* on following lines), before it (pre marker), or the two block forms     *)
(* (alternate markers, continued by ordinary comment lines).  Blank and    *)
(* ordinary comment lines may separate entities.                           *)
(*                                                                         *)
(*   Expected   by construction: entity i gets exactly its own comment     *)
(*              lines, before-comments first, in source order              *)
(*   Mechanism  ReaderImpl (docbuffer / pending / marker rewriting) feeds  *)
(*              the parser; the parser attaches to an entity the doc items *)
(*              that directly follow its statement (read_docstring); doc   *)
(*              items elsewhere go to the enclosing container, whose own   *)
(*              documentation directly follows its opening statement       *)
(***************************************************************************)
EXTENDS ReaderImpl

CONSTANTS MaxEnts, Placements, Seps

VARIABLES ents, lines, expect, nd, phase, head
vars == <<ents, lines, expect, nd, phase, head>>

Digit(n) == CASE n = 0 -> "0" [] n = 1 -> "1" [] n = 2 -> "2" [] n = 3 -> "3" [] n = 4 -> "4" [] n = 5 -> "5"
              [] n = 6 -> "6" [] n = 7 -> "7" [] n = 8 -> "8" [] OTHER -> "9"
WordOf(n) == <<"w", Digit(n \div 10), Digit(n % 10)>>
DocTxt(n) == <<" ">> \o WordOf(n)
Stmt(i) == <<"e", Digit(i)>>
Closer(i) == <<"e", "n", "d", Digit(i)>>
Ind == <<" ", " ">>

DocLineOf(mark, n) == Ind \o <<"!">> \o mark \o DocTxt(n)
PlainOf(n) == Ind \o <<"!">> \o DocTxt(n)            \* ordinary comment continuing an alternate block

(* lines and doc ids contributed by one entity with placement p, starting at doc id n *)
Before(p, n) ==
  CASE p \in {"pre1", "pre1_inline", "pre1_after1"} -> <<DocLineOf(PreMark, n)>>
    [] p = "pre2" -> <<DocLineOf(PreMark, n), DocLineOf(PreMark, n + 1)>>
    [] p = "altpre2" -> <<DocLineOf(PreAlt, n), PlainOf(n + 1)>>
    [] OTHER -> <<>>
NBefore(p) == Len(Before(p, 0))
StmtLine(i, p, n) ==
  IF p \in {"inline", "pre1_inline"} THEN Ind \o Stmt(i) \o <<" ", "!">> \o DocMark \o DocTxt(n + NBefore(p))
  ELSE Ind \o Stmt(i)
After(p, n) ==
  LET m == n + NBefore(p) IN
  CASE p \in {"after1", "pre1_after1"} -> <<DocLineOf(DocMark, m)>>
    [] p = "after2" -> <<DocLineOf(DocMark, m), DocLineOf(DocMark, m + 1)>>
    [] p = "altafter2" -> <<DocLineOf(DocAlt, m), PlainOf(m + 1)>>
    [] OTHER -> <<>>
NDocs(p) == NBefore(p) + (IF p \in {"inline", "pre1_inline"} THEN 1 ELSE 0) + Len(After(p, 0))

SepLines(s) == CASE s = "none" -> <<>> [] s = "blank" -> <<<<>>>>
                 [] s = "comment" -> <<Ind \o <<"!", " ", "c">>>>
                 [] s = "blank_comment" -> <<<<>>, Ind \o <<"!", " ", "c">>>>

(* head: number of documentation lines that directly follow the container's own opening statement (they are the *)
(* container's documentation and the only documentation it may receive)                                       *)
Init == /\ head \in {0, 1} /\ ents = <<>> /\ expect = <<>> /\ phase = "build"
        /\ lines = [j \in 1..head |-> DocLineOf(DocMark, j - 1)] /\ nd = head

AddEntity(kind, p, gap, s) ==
  /\ phase = "build" /\ Len(ents) < MaxEnts
  /\ LET i == Len(ents) + 1 IN
     \* an ordinary comment directly after an alternate after-block would belong to the block (documented rule)
     /\ ~(p = "altafter2" /\ kind = "simple" /\ s = "comment")
     /\ (gap = "blank") => NBefore(p) > 0
     \* an ordinary comment directly before an alternate pre-block of the NEXT entity is fine; directly after an
     \* alternate pre-block it would continue the block, so no gap comment there (gap is blank or none only)
     /\ ents' = Append(ents, [kind |-> kind, p |-> p, gap |-> gap, sep |-> s])
     /\ lines' = lines \o Before(p, nd) \o (IF gap = "blank" THEN <<<<>>>> ELSE <<>>) \o <<StmtLine(i, p, nd)>> \o After(p, nd)
                       \o (IF kind = "block" THEN <<Ind \o Closer(i)>> ELSE <<>>) \o SepLines(s)
     /\ expect' = Append(expect, [j \in 1..NDocs(p) |-> WordOf(nd + j - 1)])
     /\ nd' = nd + NDocs(p)
  /\ UNCHANGED <<phase, head>>

EndBody == /\ phase = "build" /\ ents # <<>> /\ phase' = "done" /\ UNCHANGED <<ents, lines, expect, nd, head>>
Next == (\E k \in {"simple", "block"}, p \in Placements, g \in {"none", "blank"}, s \in Seps : AddEntity(k, p, g, s)) \/ EndBody
Spec == Init /\ [][Next]_vars

(* ---- mechanism: the parser's consumption of the reader's items --------------------- *)
(* item texts: statements are "e<i>" / "end<i>"; a doc item directly following the      *)
(* statement of entity i (contiguously) is attached to i; anything else to the container *)
IsStmtOf(it, i) == it.k = "s" /\ it.t = Stmt(i)
DocWord(it) == SubSeq(Strip(it.t), 1, 3)

RECURSIVE Attach(_, _, _, _)
(* cur = entity whose docstring is being read (0 = none) *)
Attach(items, k, cur, acc) ==
  IF k > Len(items) THEN acc
  ELSE LET it == items[k] IN
       IF it.k = "s" THEN
          LET i == CHOOSE j \in 0..MaxEnts : (j = 0 /\ \A x \in 1..MaxEnts : ~IsStmtOf(it, x)) \/ (j > 0 /\ IsStmtOf(it, j))
          IN Attach(items, k + 1, i, acc)
       ELSE IF cur > 0 THEN Attach(items, k + 1, cur, [acc EXCEPT ![cur] = Append(@, DocWord(it))])
       ELSE Attach(items, k + 1, cur, [acc EXCEPT ![MaxEnts + 1] = Append(@, DocWord(it))])

Routed == LET r == FeedAll(RInit, lines, 1)
              items == ToItems(r.out)
          IN [err |-> r.err, att |-> Attach(items, 1, 0, [j \in 1..(MaxEnts + 1) |-> <<>>])]

(* ---- properties ------------------------------------------------------------------------ *)
Done == phase = "done"
EachDocOnItsEntity == Done => /\ Routed.err = ""
                              /\ \A i \in 1..Len(ents) : Routed.att[i] = expect[i]
NoLeakToContainer == Done => Routed.att[MaxEnts + 1] = [j \in 1..head |-> WordOf(j - 1)]
NeverAlt == ~(Done /\ \E i \in 1..Len(ents) : ents[i].p \in {"altafter2", "altpre2"})    \* vacuity guard
=============================================================================
