----------------------------- MODULE Admonition -----------------------------
(***************************************************************************)
(* C03 (rendering half): ford/md_admonition.py rewrites the lines of a     *)
(* documentation body so that `@note ... @endnote` boxes become indented   *)
(* markdown admonitions.  The rewriting inserts and deletes lines while    *)
(* walking the boxes in reverse; the property is that every word of the    *)
(* body survives exactly once and in order, that the words of a box end    *)
(* up inside it, and that a stray or mismatched end marker is reported.    *)
(*                                                                         *)
(* A line is [ind, start, mid, end, post]:                                 *)
(*    ind    leading blanks (0 or 1 level)                                 *)
(*    start  "" or the type of a start marker at the beginning of the line *)
(*    mid    words after the start marker / before the end marker          *)
(*    end    "" or the type of an end marker                               *)
(*    post   words after the end marker                                    *)
(* The empty line is the record with no marker and no words.               *)
(*                                                                         *)
(* Impl = transliteration of _find_admonitions / _process_admonitions.     *)
(***************************************************************************)
EXTENDS Naturals, Sequences, FiniteSets, TLC

CONSTANTS MaxLines, Types, MaxWords

VARIABLES body, nw, phase, result
vars == <<body, nw, phase, result>>

Line(i, s, m, e, p) == [ind |-> i, start |-> s, mid |-> m, end |-> e, post |-> p]
Blank == Line(0, "", <<>>, "", <<>>)
IsBlank(l) == l.start = "" /\ l.end = "" /\ l.mid = <<>> /\ l.post = <<>>

(* output lines: [lvl, note, words]  lvl = indentation in units of 4 blanks,   *)
(* note = "" or the type written as "@note Type"                               *)
Out(lvl, note, ws) == [lvl |-> lvl, note |-> note, words |-> ws]

RECURSIVE Flatten(_)
Flatten(ss) == IF ss = <<>> THEN <<>> ELSE Head(ss) \o Flatten(Tail(ss))
WordsIn(lines) == Flatten([i \in 1..Len(lines) |-> lines[i].mid \o lines[i].post])
WordsOut(lines) == Flatten([i \in 1..Len(lines) |-> lines[i].words])

(* ---- _find_admonitions ------------------------------------------------------ *)
(* state: cur = <<>> or <<[type, s, e]>> ; adms = found so far ; err *)
RECURSIVE Find(_, _, _, _)
Find(lines, idx, cur, adms) ==
  IF idx > Len(lines) THEN
     [err |-> "", adms |-> IF cur = <<>> THEN adms
                           ELSE Append(adms, IF cur[1].e = 0 THEN [cur[1] EXCEPT !.e = Len(lines)] ELSE cur[1])]
  ELSE
  LET l == lines[idx]
      \* a start marker closes the running admonition and opens a new one
      adms1 == IF l.start # "" /\ cur # <<>>
               THEN Append(adms, IF cur[1].e = 0 THEN [cur[1] EXCEPT !.e = idx] ELSE cur[1]) ELSE adms
      cur1  == IF l.start # "" THEN <<[type |-> l.start, s |-> idx, e |-> 0]>> ELSE cur
  IN IF l.end # "" THEN
        (IF cur1 = <<>> THEN [err |-> "end-without-start", adms |-> adms1]
         ELSE IF l.end # cur1[1].type THEN [err |-> "type-mismatch", adms |-> adms1]
         ELSE Find(lines, idx + 1, <<>>, Append(adms1, [cur1[1] EXCEPT !.e = idx])))
     ELSE IF cur1 = <<>> THEN Find(lines, idx + 1, cur1, adms1)
     ELSE IF IsBlank(l) /\ cur1[1].e = 0 THEN Find(lines, idx + 1, <<[cur1[1] EXCEPT !.e = idx]>>, adms1)
     ELSE Find(lines, idx + 1, cur1, adms1)

(* ---- _process_admonitions ----------------------------------------------------- *)
(* works on a sequence of "cells": either an input line not yet rewritten          *)
(* ([raw |-> line, lvl |-> extra indentation]) or an output line ([out |-> ...])   *)
Raw(l) == [raw |-> TRUE, l |-> l, lvl |-> 0, o |-> Out(0, "", <<>>)]
Cell(o) == [raw |-> FALSE, l |-> Blank, lvl |-> 0, o |-> o]
InsertAt(seq, pos, x) == SubSeq(seq, 1, pos - 1) \o <<x>> \o SubSeq(seq, pos, Len(seq))
RemoveAt(seq, pos) == SubSeq(seq, 1, pos - 1) \o SubSeq(seq, pos + 1, Len(seq))

CellBlank(c) == IF c.raw THEN IsBlank(c.l) ELSE (c.o.words = <<>> /\ c.o.note = "")
IndentCell(c) == IF CellBlank(c) THEN c
                 ELSE IF c.raw THEN [c EXCEPT !.lvl = @ + 1] ELSE [c EXCEPT !.o.lvl = @ + 1]

RECURSIVE IndentRange(_, _, _)
IndentRange(cells, lo, hi) ==
  IF lo > hi THEN cells ELSE IndentRange([cells EXCEPT ![lo] = IndentCell(cells[lo])], lo + 1, hi)

ProcessOne(cells, a) ==
  LET idx == a.e
      c   == cells[idx]
      hasEnd == c.raw /\ c.l.end # ""
      \* (1) text after the end marker goes to a new paragraph after the line
      c1 == IF hasEnd /\ c.l.post # <<>>
            THEN InsertAt(InsertAt(cells, idx + 1, Cell(Out(0, "", <<>>))), idx + 2, Cell(Out(0, "", c.l.post)))
            ELSE cells
      \* (2) remove the end marker (and what follows it) from the line; drop the line if nothing is left
      stripped == [c EXCEPT !.l.end = "", !.l.post = <<>>]
      emptyNow == hasEnd /\ c.l.start = "" /\ c.l.mid = <<>>
      c2 == IF ~hasEnd THEN c1
            ELSE IF emptyNow THEN RemoveAt(c1, idx)
            ELSE [c1 EXCEPT ![idx] = stripped]
      e2 == IF hasEnd /\ ~emptyNow THEN a.e + 1 ELSE a.e
      \* (3) indent the body
      hi == IF Len(c2) < e2 THEN Len(c2) ELSE e2
      c3 == IndentRange(c2, a.s + 1, hi)
      \* (4) rewrite the start line; its trailing text becomes the first body line
      sl == c3[a.s]
      c4 == [c3 EXCEPT ![a.s] = Cell(Out(sl.l.ind + sl.lvl, a.type, <<>>))]
      c5 == IF sl.l.mid # <<>> THEN InsertAt(c4, a.s + 1, Cell(Out(sl.l.ind + sl.lvl + 1, "", sl.l.mid))) ELSE c4
  IN c5

RECURSIVE ProcessAll(_, _, _)
ProcessAll(cells, adms, k) == IF k = 0 THEN cells ELSE ProcessAll(ProcessOne(cells, adms[k]), adms, k - 1)

Finalize(c) == IF c.raw THEN Out(c.l.ind + c.lvl, "", c.l.mid \o c.l.post) ELSE c.o

Run(lines) ==
  LET f == Find(lines, 1, <<>>, <<>>) IN
  IF f.err # "" THEN [err |-> f.err, lines |-> <<>>, adms |-> f.adms]
  ELSE LET cells == ProcessAll([i \in 1..Len(lines) |-> Raw(lines[i])], f.adms, Len(f.adms))
       IN [err |-> "", lines |-> [i \in 1..Len(cells) |-> Finalize(cells[i])], adms |-> f.adms]

(* ---- Ref ------------------------------------------------------------------------ *)
(* end markers must match the innermost open start marker *)
RECURSIVE WellFormed(_, _, _)
WellFormed(lines, idx, open) ==
  IF idx > Len(lines) THEN TRUE
  ELSE LET l == lines[idx]
           open1 == IF l.start # "" THEN l.start ELSE open
       IN IF l.end # "" THEN (open1 # "" /\ l.end = open1 /\ WellFormed(lines, idx + 1, ""))
          ELSE WellFormed(lines, idx + 1, IF IsBlank(l) /\ FALSE THEN "" ELSE open1)

(* ---- generator ---------------------------------------------------------------------- *)
Word(n) == <<n>>
Init == body = <<>> /\ nw = 0 /\ phase = "build" /\ result = << >>

LineShapes(n) ==       \* line shapes using fresh words n+1, n+2
  {Blank, Line(0, "", Word(n + 1), "", <<>>), Line(1, "", Word(n + 1), "", <<>>)}
  \cup {Line(i, t, <<>>, "", <<>>) : i \in {0, 1}, t \in Types}
  \cup {Line(0, t, Word(n + 1), "", <<>>) : t \in Types}
  \cup {Line(0, "", <<>>, t, <<>>) : t \in Types}
  \cup {Line(0, "", Word(n + 1), t, <<>>) : t \in Types}
  \cup {Line(0, "", <<>>, t, Word(n + 1)) : t \in Types}
  \cup {Line(0, "", Word(n + 1), t, Word(n + 2)) : t \in Types}
  \cup {Line(0, t, Word(n + 1), t, Word(n + 2)) : t \in Types}
NewWords(l) == Len(l.mid) + Len(l.post)

AddLine == /\ phase = "build" /\ Len(body) < MaxLines
           /\ \E l \in LineShapes(nw) : nw + NewWords(l) <= MaxWords /\ body' = Append(body, l) /\ nw' = nw + NewWords(l)
           /\ UNCHANGED <<phase, result>>
Convert == /\ phase = "build" /\ body # <<>> /\ phase' = "done" /\ result' = Run(body)
           /\ UNCHANGED <<body, nw>>
Next == AddLine \/ Convert
Spec == Init /\ [][Next]_vars

(* ---- properties -------------------------------------------------------------------------- *)
Done == phase = "done"
ErrorsReported == Done => ((result.err # "") <=> ~WellFormed(body, 1, ""))
WordsPreservedInOrder == (Done /\ result.err = "") => WordsOut(result.lines) = WordsIn(body)
StartsBecomeNotes == (Done /\ result.err = "") =>
   Cardinality({i \in 1..Len(result.lines) : result.lines[i].note # ""}) = Cardinality({i \in 1..Len(body) : body[i].start # ""})
NeverBox == ~(Done /\ result.err = "" /\ \E i \in 1..Len(result.lines) : result.lines[i].note # "")   \* vacuity guard
=============================================================================
