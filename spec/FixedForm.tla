----------------------------- MODULE FixedForm -----------------------------
(***************************************************************************)
(* C14: fixed-form sources.  Generator of fixed-form layouts of a logical  *)
(* content (statements as token sequences + documentation lines), the      *)
(* as-built converter ford/fixed2free2.py (FortranLine + convertToFree,    *)
(* `linestack` with one regular line of look-ahead) composed with the      *)
(* free-form reader mechanism (ReaderImpl), and the property that the      *)
(* composition yields the logical content.                                 *)
(*                                                                         *)
(* Column rules (F2018 6.3.3): columns 1-5 label, column 6 non-blank and   *)
(* non-zero marks a continuation line, statement text in 7-72, comment     *)
(* lines start with C, c, * or ! in column 1 (or are blank), text beyond   *)
(* column 72 is not part of the statement when the length limit is on.     *)
(*                                                                         *)
(* Named deviations of the converter:                                      *)
(*   "LongBlank"   an all-blank line of 6+ columns is treated as a regular *)
(*                 line: it flushes the stack and a continuation after it  *)
(*                 is attached to the blank line                           *)
(*   "InlineAmp"   the continuation "&" is appended after an inline "!"    *)
(*                 comment of the continued line (and so is lost)          *)
(*   "SeqDoc"      text beyond column 72 is turned into "!" + text: it     *)
(*                 becomes documentation when it starts with a doc marker  *)
(***************************************************************************)
EXTENDS ReaderImpl

CONSTANTS MaxStmts, MaxToks, MaxCost, FDev, LengthLimit

VARIABLES flines, logical, cur, stmt, ntok, nst, cost, mode, nd, pdocs
vars == <<flines, logical, cur, stmt, ntok, nst, cost, mode, nd, pdocs>>

Toks == {<<"x">>, <<"y", "z">>, <<"=">>, <<"'", "a", " ", "!", "'">>}
TokCost(t) == IF t \in {<<"x">>, <<"=">>} THEN 0 ELSE 1
RECURSIVE Blanks(_)
Blanks(n) == IF n = 0 THEN <<>> ELSE <<" ">> \o Blanks(n - 1)
PadTo(s, n) == IF Len(s) >= n THEN s ELSE s \o Blanks(n - Len(s))
DigitF(n) == IF n = 0 THEN "0" ELSE IF n = 1 THEN "1" ELSE IF n = 2 THEN "2" ELSE "3"
DocTextF(n) == <<" ", "d", DigitF(n)>>

(* ---- the converter, transliterated ------------------------------------------ *)
IsSpaceC(c) == c = " "
RStripF(s) == RStrip(s)
FirstChar(l) == IF l = <<>> THEN "" ELSE l[1]
(* the Python code sees each line with its newline: len(line) = Len(l) + 1 *)
FLine(l) ==
  LET n == Len(l) + 1
      label == IF n > 1 THEN Strip(SubSeq(l, 1, IF Len(l) < 5 THEN Len(l) ELSE 5)) \o <<" ">> ELSE <<>>
      cont  == IF n >= 6 /\ Len(l) >= 6 THEN l[6] ELSE (IF n >= 6 THEN "nl" ELSE "")
      five  == IF n > 1 THEN SubSeq(l, 2, IF Len(l) < 5 THEN Len(l) ELSE 5) ELSE <<>>
      isShort == n <= 6
      isLong == n > 73 /\ LengthLimit
      isComment == FirstChar(l) \in {"c", "C", "*", "!"} \/ (l = <<>> /\ FALSE)
      isNewComment == (\E i \in 1..Len(five) : five[i] = "!") /\ ~isComment
      isCpp == FirstChar(l) = "#"
      blankLine == \A i \in 1..Len(l) : l[i] = " "
      regular0 == ~(isComment \/ isNewComment \/ isCpp \/ isShort)
      regular == IF "LongBlank" \in FDev THEN regular0 ELSE regular0 /\ ~blankLine
      isCont == regular /\ ~(cont \in {" ", "0", "nl", ""})
      excess == IF isLong /\ regular THEN
                   (IF "SeqDoc" \in FDev THEN <<"!">> \o SubSeq(l, 73, Len(l)) ELSE <<"!", " ">> \o SubSeq(l, 73, Len(l)))
                ELSE <<>>
      line1 == IF isLong /\ regular THEN SubSeq(l, 1, 72) ELSE l
      code == IF Len(line1) + 1 > 6 THEN SubSeq(line1, 7, Len(line1)) ELSE <<>>
      labelBlank == \A i \in 1..Len(label) : label[i] = " "
      conv0 == IF isComment THEN <<"!">> \o SubSeq(line1, 2, Len(line1))
               ELSE IF isNewComment \/ isCpp THEN line1
               ELSE IF ~labelBlank THEN label \o code
               ELSE code
      conv == IF isLong /\ regular THEN PadTo(RStripF(conv0), 72) \o excess ELSE conv0
  IN [conv |-> conv, regular |-> regular, cont |-> isCont, long |-> isLong /\ regular, excess |-> excess]

HasInlineBang(s) == Bang("", s) # 0
ContinueLine(f) ==
  IF ~f.long THEN
     LET s == RStripF(f.conv)
         b == Bang("", s)
     IN IF "InlineAmp" \notin FDev /\ b # 0
        THEN [f EXCEPT !.conv = RStripF(SubSeq(s, 1, b - 1)) \o <<" ", "&", " ">> \o SubSeq(s, b, Len(s))]
        ELSE [f EXCEPT !.conv = s \o <<" ", "&">>]
  ELSE [f EXCEPT !.conv = PadTo(RStripF(SubSeq(f.conv, 1, 72)) \o <<" ", "&">>, 72) \o f.excess]

(* convertToFree as a fold: state = [stack, out] *)
ConvStep(st, l) ==
  LET f == FLine(l) IN
  IF f.regular THEN
     LET stack1 == IF f.cont /\ st.stack # <<>> THEN <<ContinueLine(st.stack[1])>> \o Tail(st.stack) ELSE st.stack
     IN [stack |-> <<f>>, out |-> st.out \o [i \in 1..Len(stack1) |-> stack1[i].conv]]
  ELSE [stack |-> Append(st.stack, f), out |-> st.out]
ConvertToFree(ls) ==
  LET st == FoldLeft(ConvStep, [stack |-> <<>>, out |-> <<>>], ls)
  IN st.out \o [i \in 1..Len(st.stack) |-> st.stack[i].conv]

FixedItems(ls) == ImplItems(ConvertToFree(ls))
FixedErr(ls) == FeedAll(RInit, ConvertToFree(ls), 1).err

(* ---- generator ------------------------------------------------------------------ *)
Init == /\ flines = <<>> /\ logical = <<>> /\ cur = <<>> /\ stmt = <<>> /\ ntok = 0 /\ nst = 0
        /\ cost = 0 /\ mode = "bol" /\ nd = 0 /\ pdocs = <<>>
Spend(c) == cost + c <= MaxCost /\ cost' = cost + c

Labels == {<<>>, <<"1", "0">>}
Start(t, lab) ==          \* first token of a statement, optional label in columns 1-5
  /\ mode = "bol" /\ nst < MaxStmts
  /\ Spend(TokCost(t) + (IF lab = <<>> THEN 0 ELSE 1))
  /\ cur' = PadTo(lab, 6) \o t
  /\ stmt' = (IF lab = <<>> THEN <<>> ELSE lab \o <<" ">>) \o t     \* a label is part of the free-form statement too
  /\ ntok' = 1 /\ mode' = "tok"
  /\ UNCHANGED <<flines, logical, nst, nd, pdocs>>

ContChars == {"&", "1", "$", "+", "x", "!", "9"}      \* any character but blank and zero continues a line, "!" included (it opens a comment only outside column 6)
Between == {"none", "comment_C", "comment_star", "comment_bang", "blank_short", "blank_long"}
BetweenLines(b) == CASE b = "none" -> <<>>
                     [] b = "comment_C" -> <<<<"C", " ", "c", "o", "m">>>>
                     [] b = "comment_star" -> <<<<"*", " ", "c", "o", "m">>>>
                     [] b = "comment_bang" -> <<<<"!", " ", "c", "o", "m">>>>
                     [] b = "blank_short" -> <<<<>>>>
                     [] b = "blank_long" -> <<Blanks(8)>>
NextTok(t, brk, cc, b, tail) ==
  /\ mode = "tok" /\ ntok < MaxToks
  /\ IF brk
     THEN /\ Spend(TokCost(t) + 1 + (IF cc = "&" THEN 0 ELSE 1) + (IF b = "none" THEN 0 ELSE 1) + (IF tail = "none" THEN 0 ELSE 1))
          /\ flines' = flines \o <<cur \o (CASE tail = "none" -> <<>> [] tail = "comment" -> <<" ", "!", " ", "c">>
                                              [] tail = "seq" -> Blanks(72 - Len(cur)) \o <<"S", "Q", "1">>)>>
                               \o BetweenLines(b)
          /\ cur' = Blanks(5) \o <<cc>> \o <<" ">> \o t
          /\ (tail = "seq") => (LengthLimit /\ Len(cur) <= 72)
     ELSE /\ Spend(TokCost(t)) /\ cc = "&" /\ b = "none" /\ tail = "none"
          /\ cur' = cur \o <<" ">> \o t /\ UNCHANGED flines
  /\ stmt' = stmt \o <<" ">> \o t /\ ntok' = ntok + 1
  /\ UNCHANGED <<logical, nst, mode, nd, pdocs>>

Ends == {"nl", "comment", "idoc", "seq", "seqbang", "seqmark"}
EndStmt(e) ==
  /\ mode = "tok"
  /\ Spend(IF e = "nl" THEN 0 ELSE 1)
  /\ (e \in {"seq", "seqbang", "seqmark"}) => (LengthLimit /\ Len(cur) <= 72)
  /\ LET tail == CASE e = "nl" -> <<>>
                   [] e = "comment" -> <<" ", "!", " ", "c">>
                   [] e = "idoc" -> <<" ", "!">> \o DocMark \o DocTextF(nd)
                   [] e = "seq" -> Blanks(72 - Len(cur)) \o <<"S", "Q", "2">>
                   [] e = "seqbang" -> Blanks(72 - Len(cur)) \o <<"!", " ", "q">>
                   [] e = "seqmark" -> Blanks(72 - Len(cur)) \o PreMark \o <<" ", "q">>
         docs == IF e = "idoc" THEN Append(pdocs, DocItem(DocTextF(nd))) ELSE pdocs
     IN /\ flines' = Append(flines, cur \o tail)
        /\ logical' = logical \o <<StmtItem(stmt)>> \o docs
        /\ nd' = IF e = "idoc" THEN nd + 1 ELSE nd
  /\ cur' = <<>> /\ stmt' = <<>> /\ ntok' = 0 /\ nst' = nst + 1 /\ mode' = "bol" /\ pdocs' = <<>>

OwnKinds == {"comment_C", "comment_bang", "blank_short", "blank_long", "adoc", "pdoc"}
OwnLine(k) ==
  /\ mode = "bol" /\ Len(flines) < 2 * MaxStmts + 3 /\ Spend(1)
  /\ (k = "adoc") => (logical # <<>> /\ pdocs = <<>> /\ nd < 3)
  /\ (k = "pdoc") => (nst < MaxStmts /\ nd < 3 /\ PreMark # <<>>)
  /\ CASE k \in {"comment_C", "comment_bang", "blank_short", "blank_long"} ->
            /\ flines' = flines \o BetweenLines(k) /\ UNCHANGED <<logical, pdocs, nd>>
       [] k = "adoc" -> /\ flines' = Append(flines, <<"!">> \o DocMark \o DocTextF(nd))
                        /\ logical' = Append(logical, DocItem(DocTextF(nd))) /\ nd' = nd + 1 /\ UNCHANGED pdocs
       [] k = "pdoc" -> /\ flines' = Append(flines, <<"!">> \o PreMark \o DocTextF(nd))
                        /\ pdocs' = Append(pdocs, DocItem(DocTextF(nd))) /\ nd' = nd + 1 /\ UNCHANGED logical
  /\ UNCHANGED <<cur, stmt, ntok, nst, mode>>

Next ==
  \/ \E t \in Toks, lab \in Labels : Start(t, lab)
  \/ /\ mode = "tok" /\ ntok < MaxToks
     /\ \E t \in Toks : \/ NextTok(t, FALSE, "&", "none", "none")
                        \/ \E cc \in ContChars, b \in Between, tail \in {"none", "comment", "seq"} : NextTok(t, TRUE, cc, b, tail)
  \/ \E e \in Ends : EndStmt(e)
  \/ \E k \in OwnKinds : OwnLine(k)
Spec == Init /\ [][Next]_vars

Complete == mode = "bol" /\ pdocs = <<>>
Equivalent == Complete => (FixedErr(flines) = "" /\ FixedItems(flines) = NoEmptyDocs(logical))
NeverContinued == ~(Complete /\ \E i \in 1..Len(flines) : Len(flines[i]) >= 6 /\ flines[i][6] = "&")   \* vacuity guard
=============================================================================
