------------------------------ MODULE FreeForm ------------------------------
(***************************************************************************)
(* C02 generator: every reachable state with mode = "bol" is a complete    *)
(* free-form file (`lines`) together with the logical content it was built *)
(* from (`logical`): statements as token sequences, documentation lines.   *)
(* The actions are the productions of the layout grammar: how tokens are   *)
(* separated (blank, "&" continuation with or without leading "&", with    *)
(* comment / blank lines in between), how a literal is continued, how      *)
(* statements are separated (newline, ";", trailing comment, blank and     *)
(* comment lines) and where doc comments stand.                            *)
(*                                                                         *)
(* Checked here (design level):                                            *)
(*   LayoutInvariant  RefLex(lines) = logical: the lexical rules recover   *)
(*                    the logical content from every layout                *)
(*   ImplRefines      the reader mechanism (ReaderImpl, Dev as configured) *)
(*                    yields the same items; with the as-built Dev this is *)
(*                    expected to FAIL exactly on the recorded findings    *)
(* The dump of this model is replayed through the real FortranReader.      *)
(***************************************************************************)
EXTENDS ReaderImpl

CONSTANTS MaxStmts,   \* statements per file
          MaxToks,    \* tokens per statement
          MaxLit,     \* atoms per literal body
          MaxCost,    \* budget of non-default layout / lexical features
          Extras      \* set of enabled optional production families

VARIABLES lines, cur, logical, lstmts, stmt, ntok, nst, pdocs, mode, cost, nd, lastTok, litq, litn, nbrk

vars == <<lines, cur, logical, lstmts, stmt, ntok, nst, pdocs, mode, cost, nd, lastTok, litq, litn, nbrk>>
litvars == <<litq, litn, nbrk>>

Names == {<<"x">>, <<"y", "z">>}
Ops   == {<<"=">>, <<",">>}
TokCost(t) == IF t \in {<<"x">>, <<"=">>} THEN 0 ELSE 1
Atoms == {"a", "!", ";", "&", "o", "d", " "}
Other(q) == IF q = SQ THEN DQ ELSE SQ
AtomChars(q, a) == CASE a = "o" -> <<Other(q)>> [] a = "d" -> <<q, q>> [] OTHER -> <<a>>
DocText(n, kind) == CASE kind = "plain" -> <<" ", "d", IF n = 0 THEN "0" ELSE IF n = 1 THEN "1" ELSE IF n = 2 THEN "2" ELSE "3">>
                      [] kind = "quote" -> <<" ", "d", "'", IF n = 0 THEN "0" ELSE IF n = 1 THEN "1" ELSE IF n = 2 THEN "2" ELSE "3">>
                      [] kind = "amp"   -> <<" ", "d", IF n = 0 THEN "0" ELSE IF n = 1 THEN "1" ELSE IF n = 2 THEN "2" ELSE "3", " ", "&">>
DocKinds == {"plain", "quote", "amp"}
DocKindCost(k) == IF k = "plain" THEN 0 ELSE 1

Comment(kind) == CASE kind = "c"  -> <<"!", " ", "c">>
                   [] kind = "cq" -> <<"!", " ", "i", "t", "'", "s">>
                   [] kind = "ca" -> <<"!", " ", "c", " ", "&">>
                   [] kind = "cd" -> <<"!", " ", "\"", "c">>
ComKinds == {"c", "cq", "ca", "cd"}
ComCost(k) == IF k = "c" THEN 0 ELSE 1

AlEnd(s) == s # <<>> /\ AlNum(s[Len(s)])

Init == /\ lines = <<>> /\ cur = <<>> /\ logical = <<>> /\ lstmts = <<>> /\ stmt = <<>>
        /\ ntok = 0 /\ nst = 0 /\ pdocs = <<>> /\ mode = "bol" /\ cost = 0 /\ nd = 0 /\ lastTok = <<>>
        /\ litq = "" /\ litn = 0 /\ nbrk = 0

Spend(c) == cost + c <= MaxCost /\ cost' = cost + c

(* ---- begin a statement: first token, optional indentation --------------- *)
FirstTok(t, indent, c) ==
  /\ mode \in {"bol", "semi"} /\ nst < MaxStmts
  /\ Spend(c + (IF indent THEN 1 ELSE 0))
  /\ cur' = cur \o (IF indent THEN <<" ", " ">> ELSE <<>>) \o t
  /\ stmt' = t /\ ntok' = 1 /\ lastTok' = t
  /\ UNCHANGED <<lines, logical, lstmts, nst, pdocs, nd>>

(* ---- a further token after a gap --------------------------------------- *)
(* Gap kinds.  "none" only where the two tokens need no separator.          *)
GapKinds == {"none", "sp", "amp", "ampamp", "tight", "ampc", "ampcq", "ampbl", "ampcl"}
GapCost(g) == IF g = "sp" THEN 0 ELSE 1
NextTok(t, g, c) ==
  /\ mode = "tok" /\ ntok < MaxToks
  /\ Spend(c + GapCost(g))
  /\ LET needsep == AlEnd(lastTok) /\ AlNum(Head(t)) IN
     /\ (g \in {"none", "tight"}) => ~needsep
     /\ CASE g = "none"   -> /\ cur' = cur \o t /\ lines' = lines
          [] g = "sp"     -> /\ cur' = cur \o <<" ">> \o t /\ lines' = lines
          [] g = "amp"    -> /\ lines' = Append(lines, cur \o <<" ", "&">>) /\ cur' = <<" ", " ">> \o t
          [] g = "ampamp" -> /\ lines' = Append(lines, cur \o <<" ", "&">>) /\ cur' = <<" ", "&", " ">> \o t
          [] g = "tight"  -> /\ lines' = Append(lines, cur \o <<"&">>) /\ cur' = <<"&">> \o t
          [] g = "ampc"   -> /\ lines' = Append(lines, cur \o <<" ", "&", " ">> \o Comment("c")) /\ cur' = <<" ">> \o t
          [] g = "ampcq"  -> /\ lines' = Append(lines, cur \o <<" ", "&", " ">> \o Comment("cq")) /\ cur' = <<" ">> \o t
          [] g = "ampbl"  -> /\ lines' = lines \o <<cur \o <<" ", "&">>, <<>>>> /\ cur' = <<" ">> \o t
          [] g = "ampcl"  -> /\ lines' = lines \o <<cur \o <<" ", "&">>, <<" ">> \o Comment("cq")>> /\ cur' = <<"&">> \o t
  /\ stmt' = stmt \o <<" ">> \o t /\ ntok' = ntok + 1 /\ lastTok' = t
  /\ UNCHANGED <<logical, lstmts, nst, pdocs, nd>>

(* ---- a literal token, built atom by atom, possibly continued inside ------ *)
(* LitOpen emits the opening quote as a token (after a gap, or first in the   *)
(* statement); LitAtom appends one body atom; LitBreak continues the literal  *)
(* on the next line ("&" newline [blanks] "&"), optionally with a comment or  *)
(* blank line in between; LitClose emits the closing quote.                   *)
BreakStyles == {"plain", "indent", "comline", "blank"}
LitOpen(q, g, indent) ==
  /\ IF mode = "tok" THEN NextTok(<<q>>, g, 1) ELSE FirstTok(<<q>>, indent, 1)
  /\ mode' = "lit" /\ litq' = q /\ litn' = 0 /\ nbrk' = 0
LitAtom(a) ==
  /\ mode = "lit" /\ litn < MaxLit
  /\ Spend(IF a = "a" THEN 0 ELSE 1)
  /\ cur' = cur \o AtomChars(litq, a) /\ stmt' = stmt \o AtomChars(litq, a)
  /\ litn' = litn + 1
  /\ UNCHANGED <<lines, logical, lstmts, ntok, nst, pdocs, mode, nd, lastTok, litq, nbrk>>
LitBreak(bs) ==
  /\ mode = "lit" /\ nbrk < 2
  /\ Spend(IF bs = "plain" THEN 1 ELSE 2)
  /\ (bs \in {"comline", "blank"}) => "litgap" \in Extras
  /\ lines' = lines \o <<cur \o <<"&">>>> \o
               (CASE bs = "comline" -> <<Comment("cq")>> [] bs = "blank" -> <<<<>>>> [] OTHER -> <<>>)
  /\ cur' = IF bs = "indent" THEN <<" ", " ", "&">> ELSE <<"&">>
  /\ nbrk' = nbrk + 1
  /\ UNCHANGED <<logical, lstmts, stmt, ntok, nst, pdocs, mode, nd, lastTok, litq, litn>>
LitClose ==
  /\ mode = "lit"
  /\ cur' = Append(cur, litq) /\ stmt' = Append(stmt, litq)
  /\ mode' = "tok" /\ lastTok' = <<litq>> /\ litq' = ""
  /\ UNCHANGED <<lines, logical, lstmts, ntok, nst, pdocs, cost, nd, litn, nbrk>>

(* ---- end of statement --------------------------------------------------- *)
Flush(stmts, docs) == logical \o [i \in 1..Len(stmts) |-> StmtItem(stmts[i])] \o docs

EndKinds == {"nl", "tc", "tcq", "tca", "idoc", "semi"}
EndStmt(e, dk) ==
  /\ mode = "tok"
  /\ Spend((IF e = "nl" THEN 0 ELSE 1) + (IF e = "idoc" THEN DocKindCost(dk) ELSE 0))
  /\ (e # "idoc") => dk = "plain"
  /\ LET all == Append(lstmts, stmt) IN
     IF e = "semi"
     THEN /\ nst + 1 < MaxStmts /\ pdocs = <<>>
          /\ cur' = cur \o <<";", " ">> /\ lstmts' = all /\ mode' = "semi"
          /\ UNCHANGED <<lines, logical, pdocs, nd>>
     ELSE
       LET tail == CASE e = "nl" -> <<>> [] e = "tc" -> <<" ">> \o Comment("c")
                     [] e = "tcq" -> <<" ">> \o Comment("cq") [] e = "tca" -> <<" ">> \o Comment("ca")
                     [] e = "idoc" -> <<" ", "!">> \o DocMark \o DocText(nd, dk)
           docs == IF e = "idoc" THEN Append(pdocs, DocItem(DocText(nd, dk))) ELSE pdocs
       IN /\ lines' = Append(lines, cur \o tail) /\ cur' = <<>>
          /\ logical' = Flush(all, docs) /\ lstmts' = <<>> /\ pdocs' = <<>> /\ mode' = "bol"
          /\ nd' = IF e = "idoc" THEN nd + 1 ELSE nd
  /\ stmt' = <<>> /\ ntok' = 0 /\ nst' = nst + 1 /\ lastTok' = <<>>
  /\ UNCHANGED litvars

(* ---- own-line items between statements ---------------------------------- *)
LineKinds == {"blank", "com", "adoc", "pdoc"}
OwnLine(k, ck, dk, indent) ==
  /\ mode = "bol" /\ Len(lines) < 2 * MaxStmts + 3
  /\ Spend(1 + (IF k = "com" THEN ComCost(ck) ELSE 0) + (IF k \in {"adoc", "pdoc"} THEN DocKindCost(dk) ELSE 0)
             + (IF indent THEN 1 ELSE 0))
  /\ (k # "com") => ck = "c"
  /\ (k \notin {"adoc", "pdoc"}) => dk = "plain"
  /\ (k = "blank") => ~indent
  /\ (k = "adoc") => (logical # <<>> /\ pdocs = <<>>)     \* an after-doc needs a statement before it
  /\ (k = "pdoc") => (PreMark # <<>> /\ nst < MaxStmts)
  /\ (k \in {"adoc", "pdoc"}) => nd < 3
  /\ LET ind == IF indent THEN <<" ", " ">> ELSE <<>> IN
     CASE k = "blank" -> /\ lines' = Append(lines, <<>>) /\ UNCHANGED <<logical, pdocs, nd>>
       [] k = "com"   -> /\ lines' = Append(lines, ind \o Comment(ck)) /\ UNCHANGED <<logical, pdocs, nd>>
       [] k = "adoc"  -> /\ lines' = Append(lines, ind \o <<"!">> \o DocMark \o DocText(nd, dk))
                         /\ logical' = Append(logical, DocItem(DocText(nd, dk))) /\ nd' = nd + 1 /\ UNCHANGED pdocs
       [] k = "pdoc"  -> /\ lines' = Append(lines, ind \o <<"!">> \o PreMark \o DocText(nd, dk))
                         /\ pdocs' = Append(pdocs, DocItem(DocText(nd, dk))) /\ nd' = nd + 1 /\ UNCHANGED logical
  /\ UNCHANGED <<cur, lstmts, stmt, ntok, nst, mode, lastTok, litq, litn, nbrk>>

PlainFirst(t, indent) == FirstTok(t, indent, TokCost(t)) /\ mode' = "tok" /\ UNCHANGED litvars
PlainNext(t, g) == NextTok(t, g, TokCost(t)) /\ mode' = "tok" /\ UNCHANGED litvars

Next ==
  \/ /\ mode \in {"bol", "semi"} /\ nst < MaxStmts
     /\ \E t \in Names \cup Ops : cost + TokCost(t) <= MaxCost /\ \E indent \in BOOLEAN : PlainFirst(t, indent)
  \/ /\ mode = "tok" /\ ntok < MaxToks
     /\ \E t \in Names \cup Ops : cost + TokCost(t) <= MaxCost /\ \E g \in GapKinds : PlainNext(t, g)
  \/ /\ cost < MaxCost
     /\ \/ mode = "tok" /\ ntok < MaxToks /\ \E q \in {SQ, DQ}, g \in GapKinds : LitOpen(q, g, FALSE)
        \/ mode \in {"bol", "semi"} /\ nst < MaxStmts /\ \E q \in {SQ, DQ}, indent \in BOOLEAN : LitOpen(q, "sp", indent)
  \/ \E a \in Atoms : LitAtom(a)
  \/ \E bs \in BreakStyles : LitBreak(bs)
  \/ LitClose
  \/ /\ mode = "tok"
     /\ \E e \in EndKinds : \E dk \in (IF e = "idoc" THEN DocKinds ELSE {"plain"}) : EndStmt(e, dk)
  \/ /\ mode = "bol" /\ cost < MaxCost
     /\ \E k \in LineKinds : \E ck \in (IF k = "com" THEN ComKinds ELSE {"c"}) :
          \E dk \in (IF k \in {"adoc", "pdoc"} THEN DocKinds ELSE {"plain"}) :
          \E indent \in (IF k = "blank" THEN {FALSE} ELSE BOOLEAN) : OwnLine(k, ck, dk, indent)

Spec == Init /\ [][Next]_vars

(* a pending pre-doc with no statement after it is not a complete case *)
Complete == mode = "bol" /\ pdocs = <<>>

LayoutInvariant == Complete => RefLex(lines) = NoEmptyDocs(logical)
ImplRefines     == Complete => ImplItems(lines) = NoEmptyDocs(logical)
ImplNoError     == Complete => FeedAll(RInit, lines, 1).err = ""
(* vacuity guards: TLC must find these "violations" when asked (see check) *)
NeverTwoStmts   == ~(Complete /\ nst = 2)
=============================================================================
