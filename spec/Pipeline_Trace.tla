--------------------------- MODULE Pipeline_Trace ---------------------------
(***************************************************************************)
(* Direction 2 for the umbrella spec: one recorded run of the real         *)
(* ford.main (events of vlib/pipetrace.py, one per Pipeline action, in     *)
(* the order in which the calls returned) is a behaviour of Pipeline.      *)
(* The constants of Pipeline (files, units, dependencies, ranks, entities, *)
(* pages) are the static facts the recorder logged; the harness writes     *)
(* them as literals into the wrapper module.  Every trace line must be     *)
(* matched by the Pipeline action it names, with the logged arguments;     *)
(* the run is accepted iff all lines are consumed (POSTCONDITION).         *)
(***************************************************************************)
EXTENDS Pipeline, Json, IOUtils

VARIABLE l
tvars == <<vars, l>>

Trace == JsonDeserialize(IOEnv.TRACE_FILE).events

IsEvent(name) == l <= Len(Trace) /\ Trace[l].ev = name /\ l' = l + 1
Stutter == UNCHANGED vars

TParse == /\ IsEvent("parse")
          /\ todo # {} /\ Trace[l].file = Min(todo)
          /\ IF Trace[l].ok THEN ParseOk ELSE ParseFail
TStartCorrelate == IsEvent("startcorrelate") /\ StartCorrelate
TCorrelate == IsEvent("correlate") /\ Correlate(Trace[l].unit)
TStartPrune == IsEvent("deps") /\ StartPrune          \* logged when the first unit is about to be pruned (or when correlation ends)
TPrune == IsEvent("prune") /\ Prune(Trace[l].unit)
TEndCorrelate == IsEvent("endcorrelate") /\ phase = "prune" /\ Range(pruned) = RegUnits /\ Stutter
TStartMarkdown == IsEvent("startmarkdown") /\ StartMarkdown
TStartRender == IsEvent("startrender") /\ StartRender
TStartWrite == IsEvent("startwrite") /\ phase = "render" /\ Stutter
TWipe == IsEvent("wipe") /\ Trace[l].root /\ Wipe
TPage == IsEvent("page") /\ Trace[l].inwrite /\ Write(Trace[l].page)
TEndWrite == IsEvent("endwrite") /\ phase = "write" /\ Stutter
TName == /\ IsEvent("name") /\ Trace[l].first
         /\ Name(Trace[l].e)
         /\ stems'[Trace[l].e].n = Trace[l].n                 \* the number the selector handed out is the model's
TEnd == /\ IsEvent("end")
        /\ \/ Finish /\ {p \in Pages : p \in written} = {p \in Pages : Trace[l].atend[p]}      \* pages on disk = pages written
           \/ phase # "write" /\ Stutter                          \* the run was abandoned earlier (no source files, refused, ...)

TraceNext == \/ TParse \/ TStartCorrelate \/ TCorrelate \/ TStartPrune \/ TPrune \/ TEndCorrelate \/ TStartMarkdown
             \/ TStartRender \/ TStartWrite \/ TWipe \/ TPage \/ TEndWrite \/ TName \/ TEnd
TraceInit == Init /\ l = 1
TraceSpec == TraceInit /\ [][TraceNext]_tvars

TraceAccepted == TLCGet("stats").diameter - 1 = Len(Trace)
(* safety of the umbrella spec, evaluated in every state of the recorded behaviour *)
TraceInv == /\ CorrelateAfterDeps /\ PruneAfterCorrelate /\ NamesInjective /\ WriteOnlyRegistered /\ WriteAfterWipe /\ NothingBeforeParseEnds
=============================================================================
