----------------------------- MODULE LiteralMask -----------------------------
(***************************************************************************)
(* C18 (mechanism): ford/sourceform.py cuts every character literal out of *)
(* a statement before matching it (QUOTES_RE, lines 776-784), leaving the  *)
(* placeholder "k" (k = index into `strings`), and puts the literals back  *)
(* into the pieces that are displayed (initial values in line_to_variables,*)
(* bind names in _parse_bind_C) by scanning for quoted text from a cursor  *)
(* `search_from` that is moved past each restored literal.                 *)
(*                                                                         *)
(* A statement tail is a sequence of items: code characters and literals.  *)
(* A literal is [q, body] with body over an alphabet that contains the     *)
(* other quote, the doubled own quote and digits (a literal "1" looks like *)
(* a placeholder).  Property: after masking, taking a contiguous piece of  *)
(* the masked text and restoring it, one gets the original text of that    *)
(* piece: every literal once, in place, verbatim.                          *)
(*   Dev "NoSkip": the cursor is not moved past the restored literal       *)
(***************************************************************************)
EXTENDS Naturals, Sequences, FiniteSets, TLC

CONSTANTS MaxItems, MaxBody, Dev

VARIABLES items, phase
vars == <<items, phase>>

SQ == "'"
DQ == "\""
Atoms == {"a", "0", "1", "o", "d", "<", "&"}            \* o = other quote, d = doubled own quote
CodeChars == {"x", ",", "="}
Other(q) == IF q = SQ THEN DQ ELSE SQ
AtomChars(q, a) == CASE a = "o" -> <<Other(q)>> [] a = "d" -> <<q, q>> [] OTHER -> <<a>>
RECURSIVE BodyChars(_, _)
BodyChars(q, b) == IF b = <<>> THEN <<>> ELSE AtomChars(q, Head(b)) \o BodyChars(q, Tail(b))
LitText(l) == <<l.q>> \o BodyChars(l.q, l.body) \o <<l.q>>
Bodies == UNION {[1..n -> Atoms] : n \in 0..MaxBody}

Code(c) == [lit |-> FALSE, c |-> c, q |-> "", body |-> <<>>]
Lit(q, b) == [lit |-> TRUE, c |-> "", q |-> q, body |-> b]

RECURSIVE Original(_)
Original(its) == IF its = <<>> THEN <<>> ELSE (IF Head(its).lit THEN LitText(Head(its)) ELSE <<Head(its).c>>) \o Original(Tail(its))

(* ---- masking: literals -> "k" ; strings = the literals in order -------------- *)
Digit(n) == CASE n = 0 -> "0" [] n = 1 -> "1" [] n = 2 -> "2" [] OTHER -> "3"
RECURSIVE MaskFrom(_, _)
MaskFrom(its, k) ==
  IF its = <<>> THEN <<>>
  ELSE IF Head(its).lit THEN <<DQ, Digit(k), DQ>> \o MaskFrom(Tail(its), k + 1)
  ELSE <<Head(its).c>> \o MaskFrom(Tail(its), k)
Masked == MaskFrom(items, 0)
Strings == LET lits == SelectSeq(items, LAMBDA x : x.lit) IN [i \in 1..Len(lits) |-> LitText(lits[i])]

(* ---- QUOTES_RE.search from position p: first (leftmost) quoted run ---------------- *)
(* returns [s, e] (1-based, inclusive) or [s |-> 0, e |-> 0]; a doubled quote stays inside *)
RECURSIVE CloseFrom(_, _, _)
CloseFrom(t, q, i) ==      \* index of the closing quote of a literal opened before i, 0 if unterminated
  IF i > Len(t) THEN 0
  ELSE IF t[i] = q THEN (IF i + 1 <= Len(t) /\ t[i + 1] = q THEN CloseFrom(t, q, i + 2) ELSE i)
  ELSE CloseFrom(t, q, i + 1)
RECURSIVE FindQuote(_, _)
FindQuote(t, i) ==
  IF i > Len(t) THEN [s |-> 0, e |-> 0]
  ELSE IF t[i] \in {SQ, DQ} THEN
         LET c == CloseFrom(t, t[i], i + 1) IN
         IF c = 0 THEN FindQuote(t, i + 1) ELSE [s |-> i, e |-> c]
  ELSE FindQuote(t, i + 1)

NumOf(t, m) == CASE t[m.s + 1] = "0" -> 0 [] t[m.s + 1] = "1" -> 1 [] t[m.s + 1] = "2" -> 2 [] OTHER -> 3

(* ---- restoring, as the loops in line_to_variables / _parse_bind_C do it -------------- *)
RECURSIVE Restore(_, _, _)
Restore(t, from, fuel) ==
  LET m == FindQuote(t, from) IN
  IF m.s = 0 \/ fuel = 0 THEN t
  ELSE IF ~(m.e = m.s + 2 /\ t[m.s + 1] \in {"0", "1", "2", "3"}) \/ NumOf(t, m) + 1 > Len(Strings)
       THEN <<"E", "R", "R">>                                  \* int(...) fails / index out of range
  ELSE LET str == Strings[NumOf(t, m) + 1]
           t2 == SubSeq(t, 1, m.s - 1) \o str \o SubSeq(t, m.e + 1, Len(t))
           m2 == FindQuote(t2, from)
           next == IF "NoSkip" \in Dev THEN m.s + 1 ELSE m2.e + 1
       IN Restore(t2, next, fuel - 1)

Init == items = <<>> /\ phase = "build"
Add == /\ phase = "build" /\ Len(items) < MaxItems
       /\ \/ \E c \in CodeChars : items' = Append(items, Code(c))
          \/ \E q \in {SQ, DQ}, b \in Bodies : Cardinality({i \in 1..Len(items) : items[i].lit}) < 3
                                                  /\ (IF items = <<>> THEN TRUE ELSE ~items[Len(items)].lit)      \* two literals are separated by code
                                                  /\ items' = Append(items, Lit(q, b))
       /\ UNCHANGED phase
Stop == phase = "build" /\ items # <<>> /\ phase' = "done" /\ UNCHANGED items
Next == Add \/ Stop
Spec == Init /\ [][Next]_vars

EveryLiteralReinsertedOnceInPlace == phase = "done" => Restore(Masked, 1, 8) = Original(items)
NeverDigitLiteral == ~(phase = "done" /\ \E i \in 1..Len(items) : items[i].lit /\ items[i].body = <<"1">>)   \* vacuity guard
=============================================================================
