------------------------------ MODULE GraphBFS ------------------------------
(***************************************************************************)
(* C13: what a per-entity graph shows.                                     *)
(*   rel     the relation derived from the source (uses / calls / type     *)
(*           extension+composition), over nodes 1..N                        *)
(*   Ref     DESIGN.md B.10: hops H0 = {root}, H(k+1) = succ(Hk) \ seen;   *)
(*           shown = union of H(<=K), K the largest k <= depth such that   *)
(*           the union has at most maxnodes nodes; edges shown lie between *)
(*           EMin (all edges leaving nodes of hops < K) and EInd (the      *)
(*           relation restricted to the shown nodes); if even hop 1 does   *)
(*           not fit, hop 1 is shown as a table                            *)
(*   Impl    ford/graphs.py: FortranGraph.add_nodes / add_to_graph as a    *)
(*           state machine, one action per hop (added, frontier, nesting,  *)
(*           edges, truncated, table)                                      *)
(*   Dev "GE": the node limit test uses >= instead of >  (seeded-bug demo) *)
(***************************************************************************)
EXTENDS Naturals, Sequences, FiniteSets, TLC

CONSTANTS N, Depths, Limits, Acyclic, Dev

VARIABLES rel, depth, limit, phase,          \* the case
          root, added, frontier, nesting, edges, truncated, table,   \* mechanism state for one graph
          out

vars == <<rel, depth, limit, phase, root, added, frontier, nesting, edges, truncated, table, out>>
Nodes == 1..N
Succ(r, S) == {v \in Nodes : \E u \in S : <<u, v>> \in r}
Inverse(r) == {<<e[2], e[1]>> : e \in r}

(* ---- Ref ---------------------------------------------------------------- *)
RECURSIVE RefHops(_, _, _, _, _)
(* returns [nodes, k]: nodes shown and number of accepted hops *)
RefHops(r, seen, front, k, d) ==
  LET nxt == Succ(r, front) \ seen IN
  IF k >= d \/ front = {} THEN [nodes |-> seen, exp |-> seen \ front, k |-> k]
  ELSE IF Cardinality(seen \cup nxt) > limit THEN [nodes |-> seen, exp |-> seen \ front, k |-> k]
  ELSE RefHops(r, seen \cup nxt, nxt, k + 1, d)

RefGraph(r, rt) ==
  LET h == RefHops(r, {rt}, {rt}, 0, depth)
      hop1 == Succ(r, {rt}) \ {rt}
  IN [nodes |-> h.nodes,
      emin  |-> {e \in r : e[1] \in h.exp},
      eind  |-> {e \in r : e[1] \in h.nodes /\ e[2] \in h.nodes},
      table |-> IF h.k = 0 /\ Cardinality({rt} \cup hop1) > limit THEN hop1 ELSE {}]

(* ---- Impl: one graph, one hop per step ------------------------------------ *)
Exceeds(a, b) == IF "GE" \in Dev THEN a >= b ELSE a > b

StartGraph(rt) ==
  /\ phase = "graph" /\ root = 0
  /\ root' = rt /\ added' = {rt} /\ frontier' = {rt} /\ nesting' = 1 /\ edges' = {} /\ truncated' = 0 /\ table' = {}
  /\ UNCHANGED <<rel, depth, limit, phase, out>>

Hop ==          \* FortranGraph.add_nodes(frontier, nesting)
  /\ phase = "graph" /\ root # 0 /\ frontier # {}
  /\ LET hopNodes == Succ(rel, frontier) \ added
         hopEdges == {e \in rel : e[1] \in frontier}
     IN IF Exceeds(Cardinality(hopNodes) + Cardinality(added), limit)
        THEN /\ table' = IF nesting < 2 THEN hopNodes ELSE table
             /\ truncated' = nesting /\ frontier' = {}
             /\ UNCHANGED <<added, edges, nesting>>
        ELSE /\ added' = added \cup hopNodes /\ edges' = edges \cup hopEdges
             /\ IF hopNodes = {} THEN frontier' = {} /\ UNCHANGED <<nesting, truncated>>
                ELSE IF nesting < depth THEN frontier' = hopNodes /\ nesting' = nesting + 1 /\ UNCHANGED truncated
                ELSE frontier' = {} /\ truncated' = nesting /\ UNCHANGED nesting
             /\ UNCHANGED table
  /\ UNCHANGED <<rel, depth, limit, phase, root, out>>

FinishGraph ==
  /\ phase = "graph" /\ root # 0 /\ frontier = {}
  /\ out' = Append(out, [root |-> root, fwd |-> RefGraph(rel, root), bwd |-> RefGraph(Inverse(rel), root),
                          mech |-> [nodes |-> added, edges |-> edges, table |-> table]])
  /\ IF root < N THEN root' = 0 /\ UNCHANGED phase ELSE root' = 0 /\ phase' = "done"
  /\ UNCHANGED <<rel, depth, limit, added, frontier, nesting, edges, truncated, table>>

NextRoot == IF out = <<>> THEN 1 ELSE out[Len(out)].root + 1

(* ---- generator ---------------------------------------------------------------- *)
AllEdges == IF Acyclic THEN {e \in Nodes \X Nodes : e[1] < e[2]} ELSE Nodes \X Nodes
Init == /\ rel = {} /\ depth = 0 /\ limit = 0 /\ phase = "init" /\ root = 0 /\ added = {} /\ frontier = {}
        /\ nesting = 0 /\ edges = {} /\ truncated = 0 /\ table = {} /\ out = <<>>
Choose ==
  /\ phase = "init"
  /\ \E r \in SUBSET AllEdges, d \in Depths, l \in Limits : rel' = r /\ depth' = d /\ limit' = l
  /\ phase' = "graph"
  /\ UNCHANGED <<root, added, frontier, nesting, edges, truncated, table, out>>

Next == Choose \/ (phase = "graph" /\ root = 0 /\ StartGraph(NextRoot)) \/ Hop \/ FinishGraph
Spec == Init /\ [][Next]_vars

(* ---- properties ----------------------------------------------------------------- *)
GraphDone == phase = "graph" /\ root # 0 /\ frontier = {}
ModelEqualsReach ==
  GraphDone => LET g == RefGraph(rel, root) IN
               /\ added = g.nodes
               /\ g.emin \subseteq edges /\ edges \subseteq g.eind
               /\ table = g.table
EdgesJoinPresentNodes == \A e \in edges : e[1] \in added /\ e[2] \in added
WithinLimit == Cardinality(added) <= limit \/ added = {root} \/ root = 0
NeverTruncated == truncated = 0          \* vacuity guard
=============================================================================
