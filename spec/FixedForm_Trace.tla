--------------------------- MODULE FixedForm_Trace ---------------------------
(***************************************************************************)
(* Direction 2 for C14: recorded executions of ford.fixed2free2            *)
(* .convertToFree (input lines, output lines) are checked against the      *)
(* converter model of FixedForm.tla, line by line; one TLC step per run.   *)
(***************************************************************************)
EXTENDS FixedForm, Json, IOUtils

VARIABLE i
Runs == JsonDeserialize(IOEnv.TRACE_FILE).runs

RECURSIVE FirstDiffT(_, _, _)
FirstDiffT(a, b, k) ==
  IF k > Len(a) /\ k > Len(b) THEN 0
  ELSE IF k > Len(a) \/ k > Len(b) THEN k
  ELSE IF RStrip(a[k]) # RStrip(b[k]) THEN k ELSE FirstDiffT(a, b, k + 1)

VerdictT(run) ==
  LET model == ConvertToFree(run.lines)
      d == FirstDiffT(model, run.conv, 1)
  IN [id |-> run.id, bad |-> d, n |-> Len(run.lines),
      modelAt |-> IF d > 0 /\ d <= Len(model) THEN model[d] ELSE <<>>,
      obsAt |-> IF d > 0 /\ d <= Len(run.conv) THEN run.conv[d] ELSE <<>>]

TInit == i = 0 /\ Init
TNext == /\ i < Len(Runs) /\ i' = i + 1 /\ PrintT(<<"VERDICT", ToJson(VerdictT(Runs[i + 1]))>>) /\ UNCHANGED vars
TSpec == TInit /\ [][TNext]_<<i, vars>>
AllConsumed == TLCGet("stats").diameter - 1 = Len(Runs)
=============================================================================
