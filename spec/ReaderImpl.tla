---------------------------- MODULE ReaderImpl ----------------------------
(***************************************************************************)
(* As-built mechanism model of ford/reader.py: FortranReader.__next__      *)
(* (one action = one physical line of the `while not done` loop, followed  *)
(* by the deterministic draining of `pending` and `docbuffer`), of         *)
(* _contains_unterminated_string, of the COM_RE / docmark regular          *)
(* expressions and of ford/utils.py: quote_split.                          *)
(*                                                                         *)
(* Named deviations from the lexical rules (Lex.tla) are switched by Dev:  *)
(*   "QuoteParity"    _contains_unterminated_string decides doubling by    *)
(*                    `char == previous_char` (so '' and 'a''b' leave it   *)
(*                    inside a literal)                                    *)
(*   "QuoteLineBlind" while the buffer ends inside a literal, comment and  *)
(*                    doc detection are switched off for the WHOLE next    *)
(*                    physical line (not only up to the closing quote),    *)
(*                    also for a comment line that stands between the      *)
(*                    lines of a continued literal                         *)
(* With Dev = {} the model is the algorithm as the rules require it.       *)
(***************************************************************************)
EXTENDS Lex, TLC

CONSTANT Dev

(* ---- _contains_unterminated_string ------------------------------------ *)
RECURSIVE UntermBuggy(_, _, _, _)
UntermBuggy(s, inq, cur, prev) ==
  IF s = <<>> THEN inq
  ELSE LET c == Head(s) IN
       IF ~IsQuote(c) THEN UntermBuggy(Tail(s), inq, cur, c)
       ELSE IF c = prev THEN UntermBuggy(Tail(s), inq, cur, c)
       ELSE IF c = cur THEN UntermBuggy(Tail(s), FALSE, "", c)
       ELSE IF ~inq THEN UntermBuggy(Tail(s), TRUE, c, c)
       ELSE UntermBuggy(Tail(s), inq, cur, c)

Unterm(s) == IF "QuoteParity" \in Dev THEN UntermBuggy(s, FALSE, "", "")
             ELSE QuoteAfter("", s) # ""

(* ---- COM_RE and the docmark regexes: position of group 4, 0 = no match  *)
(* The regex (a prefix made of non-quote, non-bang characters and complete *)
(* simply-delimited literals, then a bang and the mark, to end of line)    *)
(* matches iff the first bang outside simply toggled quotes exists and is  *)
(* followed by the mark.                                                   *)
(* A line whose first non-blank character is "!" is a comment line wherever it stands, also between the lines of a   *)
(* continued character literal (F2018 6.3.2.4: the literal continues on the next line that is not a comment).       *)
IsCommentLine(line) == Strip(line) # <<>> /\ Head(Strip(line)) = "!"
ComStart(line, inq, q) ==
  IF "QuoteLineBlind" \in Dev
  THEN (IF inq THEN 0 ELSE Bang("", line))
  ELSE IF IsCommentLine(line) THEN Bang("", line)
  ELSE Bang(q, line)

MarkAt(line, b, m) == b > 0 /\ m # <<>> /\ StartsWith(Drop(line, b), m)

(* ---- ford.utils.quote_split(";", s) ------------------------------------ *)
RECURSIVE QSplit(_, _, _, _, _, _)
QSplit(s, i, sq, dq, left, acc) ==
  IF i > Len(s) THEN Append(acc, SubSeq(s, left, Len(s)))
  ELSE LET c == s[i] IN
       IF c = DQ /\ ~dq THEN
            (IF ~sq THEN QSplit(s, i + 1, TRUE, dq, left, acc)
             ELSE IF i + 1 <= Len(s) /\ s[i + 1] = DQ THEN QSplit(s, i + 2, sq, dq, left, acc)
             ELSE QSplit(s, i + 1, FALSE, dq, left, acc))
       ELSE IF c = SQ /\ ~sq THEN
            (IF ~dq THEN QSplit(s, i + 1, sq, TRUE, left, acc)
             ELSE IF i + 1 <= Len(s) /\ s[i + 1] = SQ THEN QSplit(s, i + 2, sq, dq, left, acc)
             ELSE QSplit(s, i + 1, sq, FALSE, left, acc))
       ELSE IF c = ";" /\ ~dq /\ ~sq THEN QSplit(s, i + 1, sq, dq, i + 1, Append(acc, SubSeq(s, left, i - 1)))
       ELSE QSplit(s, i + 1, sq, dq, left, acc)
QuoteSplit(s) == QSplit(s, 1, FALSE, FALSE, 1, <<>>)

(* ---- reader state ------------------------------------------------------ *)
RInit == [pending |-> <<>>, docbuffer |-> <<>>, prevdoc |-> FALSE, ralt |-> 0,
          continued |-> FALSE, rpre |-> FALSE, rpa |-> 0, linebuffer |-> <<>>,
          out |-> <<>>, err |-> ""]

DocLine(rest) == <<"!">> \o DocMark \o rest
EmptyDoc == <<"!">> \o DocMark

(* drain pending, then docbuffer, as successive __next__ calls do *)
RECURSIVE DrainDocs(_, _, _, _)
DrainDocs(docs, out, prevdoc, first) ==
  IF docs = <<>> THEN [out |-> out, prevdoc |-> prevdoc]
  ELSE DrainDocs(Tail(docs), Append(out, Head(docs)),
                 IF first /\ Head(docs) = EmptyDoc THEN prevdoc ELSE TRUE, FALSE)

Finish(st) ==
  LET frags == QuoteSplit(st.linebuffer)
      kept  == SelectSeq(frags, LAMBDA f : f # <<>>)
      pend  == st.pending \o [i \in 1..Len(kept) |-> Strip(kept[i])]
      d     == DrainDocs(st.docbuffer, st.out \o pend, IF pend # <<>> THEN FALSE ELSE st.prevdoc, pend = <<>>)
  IN [st EXCEPT !.pending = <<>>, !.docbuffer = <<>>, !.out = d.out, !.prevdoc = d.prevdoc,
                !.continued = FALSE, !.rpre = FALSE, !.rpa = 0, !.linebuffer = <<>>]

(* One iteration of the `while not done` loop on physical line `line0`    *)
(* (without its newline).                                                  *)
Feed(st, line0) ==
  IF st.err # "" THEN st
  ELSE IF Strip(line0) # <<>> /\ Head(Strip(line0)) = "#" THEN st
  ELSE
  LET inq  == Unterm(st.linebuffer)
      q    == QuoteAfter("", st.linebuffer)
      b    == ComStart(line0, inq, q)
      com  == IF b = 0 THEN <<>> ELSE SubSeq(line0, b, Len(line0))
      inl  == b > 0 /\ Strip(SubSeq(line0, 1, b - 1)) # <<>>
      mPre == MarkAt(line0, b, PreMark)
      mPA  == MarkAt(line0, b, PreAlt)
      mDA  == MarkAt(line0, b, DocAlt)
      mDoc == MarkAt(line0, b, DocMark)
      \* -- predoc
      s1 == IF mPre THEN [st EXCEPT !.rpre = TRUE, !.ralt = 0, !.rpa = 0,
                                   !.docbuffer = Append(@, DocLine(Drop(com, 1 + Len(PreMark)))),
                                   !.err = IF inl THEN "predoc-inline" ELSE ""]
            ELSE st
      s2 == IF mPA THEN [s1 EXCEPT !.rpa = 1, !.ralt = 0, !.rpre = FALSE,
                                   !.docbuffer = Append(@, DocLine(Drop(com, 1 + Len(PreAlt)))),
                                   !.err = IF s1.err # "" THEN s1.err ELSE IF inl THEN "predocalt-inline" ELSE ""]
            ELSE s1
      s3 == IF mDA THEN [s2 EXCEPT !.ralt = 1, !.rpre = FALSE, !.rpa = 0,
                                   !.docbuffer = Append(@, DocLine(Drop(com, 1 + Len(DocAlt)))),
                                   !.err = IF s2.err # "" THEN s2.err ELSE IF inl THEN "docalt-inline" ELSE ""]
            ELSE s2
      s4 == IF mDoc THEN [s3 EXCEPT !.ralt = 0, !.rpa = 0, !.docbuffer = Append(@, com)] ELSE s3
      line1 == IF mDoc THEN SubSeq(line0, 1, b - 1) ELSE line0
      sl1  == Strip(line1)
      s5 == [s4 EXCEPT !.ralt = IF sl1 = <<>> \/ Head(sl1) # "!" THEN 0 ELSE @,
                       !.rpa  = IF sl1 # <<>> /\ Head(sl1) # "!" THEN 0 ELSE @]
      \* -- ordinary comments (COM_RE on the possibly shortened line)
      b2   == ComStart(line1, inq, q)
      com2 == IF b2 = 0 THEN <<>> ELSE SubSeq(line1, b2, Len(line1))
      promote == b2 > 0 /\ (s5.rpa > 1 \/ s5.ralt > 1) /\ Strip(SubSeq(line1, 1, b2 - 1)) = <<>>
      s6 == IF promote THEN [s5 EXCEPT !.docbuffer = Append(@, DocLine(Drop(com2, 1)))] ELSE s5
      line2 == Strip(IF b2 > 0 THEN SubSeq(line1, 1, b2 - 1) ELSE line1)
  IN IF s6.err # "" THEN s6
     ELSE IF line2 = <<>> THEN
        LET s7 == IF s6.prevdoc /\ s6.docbuffer = <<>> THEN [s6 EXCEPT !.docbuffer = <<EmptyDoc>>] ELSE s6
            s8 == [s7 EXCEPT !.ralt = IF @ > 0 THEN @ + 1 ELSE @, !.rpa = IF @ > 0 THEN @ + 1 ELSE @]
            done == (s8.docbuffer # <<>> \/ s8.linebuffer # <<>>) /\ ~s8.continued /\ ~s8.rpre /\ s8.rpa = 0
        IN IF done THEN Finish(s8) ELSE s8
     ELSE
        LET s7 == [s6 EXCEPT !.rpre = FALSE, !.rpa = 0, !.ralt = 0]
            amp == Head(line2) = "&"
        IN IF amp /\ s7.continued /\ Strip(Drop(line2, 1)) = <<>> THEN s7                 \* `continue`
           ELSE IF amp /\ ~s7.continued /\ Len(line2) = 1 THEN s7                         \* `continue`
           ELSE IF amp /\ ~s7.continued THEN [s7 EXCEPT !.err = "amp-start"]
           ELSE
           LET line3 == IF amp THEN Drop(line2, 1) ELSE line2
               lb    == IF amp THEN s7.linebuffer ELSE Append(Strip(s7.linebuffer), " ")
               cont  == line3[Len(line3)] = "&"
               line4 == IF cont THEN SubSeq(line3, 1, Len(line3) - 1) ELSE line3
               s8    == [s7 EXCEPT !.linebuffer = lb \o line4, !.continued = cont]
               done  == (s8.docbuffer # <<>> \/ s8.linebuffer # <<>>) /\ ~cont
           IN IF done THEN Finish(s8) ELSE s8

FeedAll(st, lines, i) == FoldLeft(Feed, st, lines)

(* Yielded raw strings -> canonical items (same canonical form as Lex)    *)
IsDocStr(s) == StartsWith(s, EmptyDoc)
ToItem(s) == IF IsDocStr(s) THEN DocItem(Drop(s, 1 + Len(DocMark))) ELSE StmtItem(s)
ToItems(ss) == NoEmptyDocs([i \in 1..Len(ss) |-> ToItem(ss[i])])

ImplYields(lines) == FeedAll(RInit, lines, 1).out
ImplItems(lines) == ToItems(ImplYields(lines))
=============================================================================
