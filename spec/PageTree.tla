------------------------------ MODULE PageTree ------------------------------
(***************************************************************************)
(* C17: static pages mirror the page directory.                            *)
(*                                                                         *)
(* A page directory (two levels deep: root and one sub-directory `sub`,    *)
(* plus asset directories) is described by a record of features (among    *)
(* them: a sub-directory of `sub` named like a directory the root page     *)
(* copies verbatim - copy_subdir is local to its page - and a copy_subdir  *)
(* list whose first entry does not exist - it costs a warning only).  Ref  *)
(* (user guide "Static pages", DESIGN.md B.11) gives the set of pages with *)
(* their paths, the order of the root's sub-pages, the files copied next   *)
(* to their pages and the directories copied verbatim.  Impl is the walk   *)
(* of ford/pagetree.py: get_page_tree (merge of ordered_subpage with the   *)
(* sorted directory listing, skipping hidden and backup entries, recursing *)
(* into directories) and PagetreePage.writeout.                            *)
(*   Dev "ParentCopySubdir": a directory is skipped as copy_subdir only if *)
(*        the PARENT page lists it, not the page of the directory itself   *)
(***************************************************************************)
EXTENDS Naturals, Sequences, FiniteSets, TLC

CONSTANT Dev
VARIABLES t, phase, out
vars == <<t, phase, out>>

Md == {0, 1, 2}          \* 0 absent, 1 with a title, 2 without a title
Orders == {"none", "ba", "sub_first", "b_only"}

Init == t = << >> /\ phase = "init" /\ out = << >>
Choose ==
  /\ phase = "init"
  /\ \E a \in Md, b \in Md, txt \in BOOLEAN, hid \in BOOLEAN, bak \in BOOLEAN, ord \in Orders,
        sub \in {0, 1, 2}, c \in Md, stxt \in BOOLEAN, assets \in BOOLEAN, rootcopy \in BOOLEAN,
        assets2 \in BOOLEAN, subcopy \in BOOLEAN, subassets \in BOOLEAN, missfirst \in BOOLEAN, ccopy \in BOOLEAN, dotted \in BOOLEAN :
       /\ (ord = "ba") => (a # 0 /\ b # 0)           \* ordered_subpage names existing entries only
       /\ (ord = "b_only") => b # 0
       /\ (ord = "sub_first") => sub # 0
       /\ (sub = 0) => (c = 0 /\ ~stxt /\ ~assets2 /\ ~subcopy)
       /\ subassets => sub = 1        \* `sub` holds a page directory called `assets`, like the directory the ROOT page may copy verbatim
       /\ missfirst => rootcopy       \* the root's copy_subdir list names a missing directory before `assets`
       /\ (sub = 2) => (~assets2 /\ ~subcopy)         \* metadata lives in the index page
       /\ rootcopy => assets
       /\ subcopy => assets2
       /\ dotted => (a = 1 /\ ~ccopy /\ ~subassets)      \* pages/a.b.md next to pages/a.md: two files, two pages (a.b.html, a.html)
       /\ ccopy => (sub = 1 /\ c = 1)      \* the ordinary page sub/c.md names a directory of its own in copy_subdir (the setting is per page)
       /\ t' = [a |-> a, b |-> b, txt |-> txt, hid |-> hid, bak |-> bak, ord |-> ord, sub |-> sub, c |-> c, stxt |-> stxt,
                assets |-> assets, rootcopy |-> rootcopy, assets2 |-> assets2, subcopy |-> subcopy, subassets |-> subassets, missfirst |-> missfirst, ccopy |-> ccopy, dotted |-> dotted]
  /\ phase' = "chosen" /\ UNCHANGED out

(* ---- Ref ---------------------------------------------------------------------- *)
RootEntries == <<"a.b.md", "a.md", "assets", "b.md", "notes.txt", "sub">>      \* alphabetical listing (entries that may exist)
Exists(n) == CASE n = "a.b.md" -> t.dotted [] n = "a.md" -> t.a # 0 [] n = "b.md" -> t.b # 0 [] n = "notes.txt" -> t.txt
               [] n = "sub" -> t.sub # 0 [] n = "assets" -> t.assets [] OTHER -> FALSE
Ordered == CASE t.ord = "ba" -> <<"b.md", "a.md">> [] t.ord = "sub_first" -> <<"sub">> [] t.ord = "b_only" -> <<"b.md">> [] OTHER -> <<>>
InSeq(s, x) == \E i \in 1..Len(s) : s[i] = x
RestOf == SelectSeq(RootEntries, LAMBDA n : Exists(n) /\ ~InSeq(Ordered, n))
Merged == Ordered \o RestOf

SubPagesOf(copySkip) ==     \* pages below `sub`, in order; copySkip = is assets2 skipped as a copied directory
  IF t.sub # 1 THEN <<>>
  ELSE <<"sub/index.html">>
       \o (IF t.subassets THEN <<"sub/assets/index.html">> ELSE <<>>)     \* copy_subdir of the root page is local to the root directory
       \o (IF t.assets2 /\ ~copySkip THEN <<"sub/assets2/index.html">> ELSE <<>>)
       \o (IF t.c = 1 THEN <<"sub/c.html">> ELSE <<>>)
PageOf(n, copySkip) == CASE n = "a.b.md" -> <<"a.b.html">>
                         [] n = "a.md" -> (IF t.a = 1 THEN <<"a.html">> ELSE <<>>)
                         [] n = "b.md" -> (IF t.b = 1 THEN <<"b.html">> ELSE <<>>)
                         [] n = "sub" -> SubPagesOf(copySkip)
                         [] OTHER -> <<>>
RECURSIVE Concat(_, _, _)
Concat(names, i, copySkip) == IF i > Len(names) THEN <<>> ELSE PageOf(names[i], copySkip) \o Concat(names, i + 1, copySkip)

RefPages == <<"index.html">> \o Concat(Merged, 1, t.subcopy)
RefFiles == (IF t.txt THEN {"notes.txt"} ELSE {})
            \cup (IF t.sub = 1 /\ t.subassets THEN {"sub/assets/pic.png"} ELSE {})
            \cup (IF t.sub = 1 /\ t.stxt THEN {"sub/d.txt"} ELSE {})
            \cup (IF t.rootcopy THEN {"assets/img.png", "assets/stray.md"} ELSE {})
            \cup (IF t.sub = 1 /\ t.subcopy THEN {"sub/assets2/img2.png", "sub/assets2/index.md"} ELSE {})
            \cup (IF t.sub = 1 /\ t.assets2 /\ ~t.subcopy THEN {"sub/assets2/img2.png"} ELSE {})
            \cup (IF t.ccopy THEN {"sub/cdata/x.dat"} ELSE {})

(* ---- Impl ---------------------------------------------------------------------- *)
(* root level: parent is None, so nothing is ever skipped as copy_subdir; `assets` has no index.md and yields no node.  *)
(* sub level: a directory entry is skipped iff the parent page (root) lists it - or, without the deviation, iff the page *)
(* of `sub` itself lists it.                                                                                              *)
ImplSkipAssets2 == IF "ParentCopySubdir" \in Dev THEN FALSE ELSE t.subcopy
ImplPages == <<"index.html">> \o Concat(Merged, 1, ImplSkipAssets2)
ImplFiles == (IF t.txt THEN {"notes.txt"} ELSE {})
             \cup (IF t.sub = 1 /\ t.subassets THEN {"sub/assets/pic.png"} ELSE {})
             \cup (IF t.sub = 1 /\ t.stxt THEN {"sub/d.txt"} ELSE {})
             \cup (IF t.rootcopy THEN {"assets/img.png", "assets/stray.md"} ELSE {})
             \cup (IF t.sub = 1 /\ t.subcopy THEN {"sub/assets2/img2.png", "sub/assets2/index.md"} ELSE {})
             \cup (IF t.sub = 1 /\ t.assets2 /\ ~ImplSkipAssets2 THEN {"sub/assets2/img2.png"} ELSE {})
             \cup (IF t.ccopy THEN {"sub/cdata/x.dat"} ELSE {})

Emit == /\ phase = "chosen" /\ phase' = "done"
        /\ out' = [pages |-> RefPages, files |-> RefFiles, ipages |-> ImplPages, ifiles |-> ImplFiles]
        /\ UNCHANGED t
Next == Choose \/ Emit
Spec == Init /\ [][Next]_vars

(* ---- properties ------------------------------------------------------------------ *)
ImplRefines == phase = "chosen" => (ImplPages = RefPages /\ ImplFiles = RefFiles)
OnePagePerTitledMd == phase = "chosen" =>
   \A i, j \in 1..Len(RefPages) : i # j => RefPages[i] # RefPages[j]
UntitledSkippedSiblingsKept == phase = "chosen" =>
   ((t.a = 2 /\ t.b = 1) => InSeq(RefPages, "b.html") /\ ~InSeq(RefPages, "a.html"))
OrderedFirst == phase = "chosen" => ((t.ord = "ba" /\ t.a = 1 /\ t.b = 1) =>
   \E i, j \in 1..Len(RefPages) : i < j /\ RefPages[i] = "b.html" /\ RefPages[j] = "a.html")
NeverNested == ~(phase = "chosen" /\ t.assets2 /\ t.subcopy)     \* vacuity guard
=============================================================================
