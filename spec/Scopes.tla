------------------------------- MODULE Scopes -------------------------------
(***************************************************************************)
(* C06: USE association.  A project is a sequence of modules M1..Mk (Mi    *)
(* may USE only earlier modules: the USE graph is acyclic) followed by a   *)
(* probe program that USEs some of them and refers to every candidate      *)
(* name.                                                                   *)
(*   Ref   Fortran 2018 14.2.2 / 8.6.1 (DESIGN.md B.4): what each module   *)
(*         exports, what a set of USE statements makes accessible, under   *)
(*         which local names                                               *)
(*   Impl  as-built tables of ford/sourceform.py (pub_* built in _cleanup  *)
(*         and extended during correlate, get_used_entities,               *)
(*         filter_public) with named deviations                            *)
(*            "RenameWithoutOnly"    `use m, l => r` imports r as r        *)
(*            "PrivateImportIgnored" `private :: imported` in a default-   *)
(*                                   public module does not stop re-export *)
(*            "EmptyOnly"            `use m, only:` imports everything     *)
(*            "OneLocalPerRemote"    `only: c => b, b` keeps one local name *)
(***************************************************************************)
EXTENDS Naturals, Sequences, FiniteSets, TLC

CONSTANTS Ents,       \* entity names that modules may declare, e.g. {"a","b"}
          Aliases,    \* extra local names usable in renames, e.g. {"c"}
          NameOrder,  \* all names as a sequence (canonical order)
          MaxMods,    \* number of modules before the probe
          MaxCost,
          Dev

VARIABLES mods, stage, cost, out
vars == <<mods, stage, cost, out>>

AllNames == Ents \cup Aliases
Rank(n) == CHOOSE i \in 1..Len(NameOrder) : NameOrder[i] = n
Perm3 == {"none", "public", "private"}

(* A use statement: module index, ONLY flag, items <<local, remote>>       *)
Plain(m)            == [m |-> m, only |-> FALSE, items |-> <<>>]
Item(l, r)          == [l |-> l, r |-> r]
UseStmt(m, o, its)  == [m |-> m, only |-> o, items |-> its]

Cur == mods[Len(mods)]
K == Len(mods)

(* ---- sets of <<localname, entity>> pairs ---------------------------------- *)
Functional(ps) == \A p, q \in ps : p[1] = q[1] => p[2] = q[2]
Dom(ps) == {p[1] : p \in ps}
Lookup(ps, n) == IF n \in Dom(ps) THEN (CHOOSE p \in ps : p[1] = n)[2] ELSE <<0, "unresolved">>

OwnPerm(M, n) == IF M.decls[n] # "none" THEN M.decls[n] ELSE M.dflt
OwnPublic(M, i) == {<<n, <<i, n>>>> : n \in {x \in DOMAIN M.decls : OwnPerm(M, x) = "public"}}
OwnAll(M, i) == {<<n, <<i, n>>>> : n \in DOMAIN M.decls}

(* ---- Ref ------------------------------------------------------------------ *)
(* names under which the entities exported by module m (pairs ex) are known   *)
(* given ALL use statements ss for m in one scoping unit                      *)
UseNamesFrom(ex, ss) ==
  LET allonly  == \A s \in ss : s.only
      items    == UNION {{s.items[j] : j \in 1..Len(s.items)} : s \in ss}
      renames  == {it \in items : it.l # it.r}
      onlyplain == UNION {{s.items[j] : j \in 1..Len(s.items)} : s \in {t \in ss : t.only}}
  IN UNION {
       {<<it.l, p[2]>> : it \in {r \in renames : r.r = p[1]}}
       \cup (IF \E it \in onlyplain : it.l = it.r /\ it.r = p[1] THEN {p} ELSE {})
       \cup (IF ~allonly /\ ~(\E r \in renames : r.r = p[1]) THEN {p} ELSE {})
     : p \in ex}

RECURSIVE RefExports(_, _)
RefUseNames(MS, i) ==      \* MS: sequence of modules; scoping unit i
  LET M == MS[i]
      used == {M.uses[j].m : j \in 1..Len(M.uses)}
  IN UNION {UseNamesFrom(RefExports(MS, m), {M.uses[j] : j \in {x \in 1..Len(M.uses) : M.uses[x].m = m}}) : m \in used}
RefExports(MS, i) ==
  LET M == MS[i]
      imp == RefUseNames(MS, i)
      accOf(l) == IF l \in DOMAIN M.acc THEN M.acc[l] ELSE M.dflt
  IN OwnPublic(M, i) \cup {p \in imp : accOf(p[1]) = "public"}

RefVisible(MS, i) == OwnAll(MS[i], i) \cup RefUseNames(MS, i)

(* ---- Impl ----------------------------------------------------------------- *)
(* dictionaries as sets of pairs; Update(d, e) = d.update(e)                   *)
Update(d, e) == {p \in d : p[1] \notin Dom(e)} \cup e

RECURSIVE UsedNamesDict(_, _, _)
UsedNamesDict(items, j, d) ==     \* remote -> local, later items overwrite
  IF j > Len(items) THEN d
  ELSE UsedNamesDict(items, j + 1, Update(d, {<<items[j].r, items[j].l>>}))

ImplGetUsed(pub, s, dv) ==
  IF s.items = <<>> /\ ~s.only THEN pub
  ELSE IF s.items = <<>> /\ s.only THEN (IF "EmptyOnly" \in dv THEN pub ELSE {})
  ELSE LET un  == UsedNamesDict(s.items, 1, {})
           its == {s.items[j] : j \in 1..Len(s.items)}
           rel == IF "OneLocalPerRemote" \in dv THEN {Item(p[2], p[1]) : p \in un} ELSE its
       IN
       IF s.only THEN {<<it.l, Lookup(pub, it.r)>> : it \in {x \in rel : x.r \in Dom(pub)}}
       ELSE IF "RenameWithoutOnly" \in dv THEN pub
       ELSE {<<it.l, Lookup(pub, it.r)>> : it \in {x \in rel : x.r \in Dom(pub)}}
            \cup {p \in pub : ~(\E it \in rel : it.r = p[1])}

RECURSIVE ImplPubD(_, _, _)
RECURSIVE ImplUses(_, _, _, _, _, _)
(* fold over the use statements of module i: returns [pub, all] *)
ImplUses(MS, i, j, pub, all, dv) ==
  LET M == MS[i] IN
  IF j > Len(M.uses) THEN [pub |-> pub, all |-> all]
  ELSE LET got == ImplGetUsed(ImplPubD(MS, M.uses[j].m, dv), M.uses[j], dv)
           publist == {n \in DOMAIN M.decls : OwnPerm(M, n) = "public"} \cup {l \in DOMAIN M.acc : M.acc[l] = "public"}
           keep(l) == IF "PrivateImportIgnored" \in dv
                      THEN M.dflt = "public" \/ l \in publist
                      ELSE (IF l \in DOMAIN M.acc THEN M.acc[l] = "public" ELSE M.dflt = "public")
       IN ImplUses(MS, i, j + 1, Update(pub, {p \in got : keep(p[1])}), Update(all, got), dv)
ImplPubD(MS, i, dv) == ImplUses(MS, i, 1, OwnPublic(MS[i], i), OwnAll(MS[i], i), dv).pub
ImplAllD(MS, i, dv) == ImplUses(MS, i, 1, OwnPublic(MS[i], i), OwnAll(MS[i], i), dv).all
ImplPub(MS, i) == ImplPubD(MS, i, Dev)
ImplAll(MS, i) == ImplAllD(MS, i, Dev)

(* ---- generator -------------------------------------------------------------- *)
(* stage of the module under construction: "decl" -> "use" -> "acc"; the last    *)
(* module (index MaxMods + 1) is the probe: no declarations, default irrelevant  *)
NewMod(d) == [dflt |-> d, decls |-> << >>, uses |-> <<>>, acc |-> << >>]
DeclaredAnywhere == UNION {DOMAIN mods[i].decls : i \in 1..Len(mods)}

Init == mods = <<>> /\ stage = "new" /\ cost = 0 /\ out = <<>>

Spend(c) == cost + c <= MaxCost /\ cost' = cost + c
SetCur(M) == mods' = [mods EXCEPT ![Len(mods)] = M]

StartModule(d) ==
  /\ stage \in {"new", "decl", "use", "acc"} /\ Len(mods) <= MaxMods
  /\ (Len(mods) > 0) => (DOMAIN Cur.decls # {} \/ Cur.uses # <<>>)        \* no empty modules
  /\ (Len(mods) = MaxMods) => d = "public"                           \* the probe program
  /\ Spend(IF d = "private" THEN 1 ELSE 0)
  /\ mods' = Append(mods, NewMod(d)) /\ stage' = IF Len(mods) = MaxMods THEN "use" ELSE "decl"
  /\ UNCHANGED out

AddDecl(n, p) ==
  /\ stage = "decl" /\ Len(mods) <= MaxMods /\ n \notin DeclaredAnywhere
  /\ \A x \in DOMAIN Cur.decls : Rank(x) < Rank(n)                                \* canonical order
  /\ Spend(IF p = "none" THEN 0 ELSE 1)
  /\ SetCur([Cur EXCEPT !.decls = @ @@ (n :> p)]) /\ UNCHANGED <<stage, out>>

AddUse(s) ==
  /\ stage \in {"decl", "use"} /\ Len(mods) >= 2 /\ Len(Cur.uses) < 2
  /\ s.m < Len(mods)
  /\ Spend((IF s.only THEN 1 ELSE 0) + Cardinality({j \in 1..Len(s.items) : s.items[j].l # s.items[j].r})
           + (IF Len(Cur.uses) = 1 THEN 1 ELSE 0))
  \* domain restriction: when one module is USEd twice in a scoping unit and some statement renames,
  \* every statement for that module has ONLY (the standard's "use-name of any rename" rule for mixed
  \* forms is not exercised)
  /\ \A j \in 1..Len(Cur.uses) : Cur.uses[j].m = s.m =>
        LET both == {Cur.uses[j], s}
            ren  == \E t \in both : \E x \in 1..Len(t.items) : t.items[x].l # t.items[x].r
        IN ren => \A t \in both : t.only
  /\ LET M2 == [Cur EXCEPT !.uses = Append(@, s)]
         MS2 == [mods EXCEPT ![Len(mods)] = M2]
         vis == RefUseNames(MS2, Len(mods))
     IN /\ Functional(vis)                                             \* no name clash (illegal Fortran)
        /\ Dom(vis) \cap DOMAIN Cur.decls = {}
        /\ mods' = MS2
  /\ stage' = "use" /\ UNCHANGED out

AddAcc(l, p) ==
  /\ stage \in {"use", "acc"} /\ Len(mods) <= MaxMods
  /\ l \in Dom(RefUseNames(mods, Len(mods))) /\ l \notin DOMAIN Cur.acc
  /\ \A x \in DOMAIN Cur.acc : Rank(x) < Rank(l)
  /\ Spend(1)
  /\ SetCur([Cur EXCEPT !.acc = @ @@ (l :> p)]) /\ stage' = "acc" /\ UNCHANGED out

ItemsOver(ex) == {Item(l, r) : l \in AllNames, r \in ex}
FormsOver(m, ex) ==
  {Plain(m), UseStmt(m, TRUE, <<>>)}
  \cup {UseStmt(m, TRUE, <<it>>) : it \in ItemsOver(ex)}
  \cup {UseStmt(m, FALSE, <<it>>) : it \in {x \in ItemsOver(ex) : x.l # x.r}}
  \cup {UseStmt(m, TRUE, <<pr[1], pr[2]>>) : pr \in {q \in ItemsOver(ex) \X ItemsOver(ex) : q[1] # q[2]}}

IsProbe == Len(mods) = MaxMods + 1
Complete == IsProbe /\ Cur.uses # <<>>

Finish ==
  /\ out = <<>> /\ Complete
  /\ LET vis == RefVisible(mods, Len(mods))
         ia  == ImplAll(mods, Len(mods))
     IN out' = [resolve |-> [n \in AllNames |-> Lookup(vis, n)],
                impl    |-> [n \in AllNames |-> Lookup(ia, n)],
                by      |-> [d \in Dev |-> [n \in AllNames |-> Lookup(ImplAllD(mods, Len(mods), {d}), n)]],
                \* what a host scoping unit with a plain `use m1` contributes to names the probe's own USE statements
                \* leave unresolved (host association: a use-associated name of the inner scope hides the host's)
                exp1    |-> [n \in AllNames |-> Lookup(RefExports(mods, 1), n)],
                iexp1   |-> [n \in AllNames |-> Lookup(ImplPub(mods, 1), n)],
                byexp1  |-> [d \in Dev |-> [n \in AllNames |-> Lookup(ImplPubD(mods, 1, {d}), n)]]]
  /\ UNCHANGED <<mods, stage, cost>>

Next ==
  \/ Finish
  \/ /\ out = <<>>
     /\ \/ \E d \in {"public", "private"} : StartModule(d)
        \/ \E n \in Ents, p \in Perm3 : AddDecl(n, p)
        \/ /\ stage \in {"decl", "use"} /\ Len(mods) >= 2 /\ Len(Cur.uses) < 2
           /\ \E m \in 1..(Len(mods) - 1) :
                LET ex == Dom(RefExports(mods, m)) IN \E s \in FormsOver(m, ex) : AddUse(s)
        \/ \E l \in AllNames, p \in {"public", "private"} : AddAcc(l, p)

Spec == Init /\ [][Next]_vars

(* ---- properties ---------------------------------------------------------------- *)
ImplRefines == Complete => \A n \in AllNames :
                 Lookup(ImplAll(mods, Len(mods)), n) = Lookup(RefVisible(mods, Len(mods)), n)
ExportsRefine == \A i \in 1..Len(mods) : (i <= MaxMods /\ (i < Len(mods) \/ stage = "acc")) =>
                 ImplPub(mods, i) = RefExports(mods, i)
PrivateNeverImported ==      \* sanity of the rule itself
  Complete => \A p \in RefUseNames(mods, Len(mods)) :
                 LET e == p[2] IN OwnPerm(mods[e[1]], e[2]) = "public"
NeverRenamed == ~(Complete /\ \E n \in Aliases : Lookup(RefVisible(mods, Len(mods)), n)[1] # 0)   \* vacuity guard
=============================================================================
