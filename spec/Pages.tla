------------------------------- MODULE Pages -------------------------------
(***************************************************************************)
(* C09 (page / navigation consistency): which list pages a run writes      *)
(* (transcribed from ford/output.py: Documentation.__init__) versus which  *)
(* list pages the navigation bar of every page (templates/base.html) and   *)
(* the front page (templates/index.html) link to, for every project shape. *)
(* A shape is the number of entities of each page-bearing kind.            *)
(*   Dev "IndexFilesLink": index.html links lists/files.html whenever      *)
(*        sources are included, even if the list page is not written       *)
(***************************************************************************)
EXTENDS Naturals, FiniteSets, TLC

CONSTANTS MaxCount, Dev

VARIABLES shape, phase, out
vars == <<shape, phase, out>>

Kinds == {"files", "extra", "modules", "submodules", "programs", "procedures", "types", "absint", "blockdata", "namelists"}
Opts == {"incl_src", "front_items"}        \* front_items: max_frontpage_items > 0

Init == shape = << >> /\ phase = "init" /\ out = << >>

Choose ==
  /\ phase = "init"
  /\ \E s \in [Kinds -> 0..MaxCount], o \in [Opts -> BOOLEAN] :
       /\ s["files"] >= 1                                        \* FORD refuses to run without sources
       /\ s["submodules"] > 0 => s["modules"] > 0                \* a submodule has an ancestor module
       /\ s["namelists"] > 0 => (s["programs"] + s["procedures"] + s["modules"] > 0)
       /\ s["types"] > 0 => s["modules"] + s["programs"] > 0
       /\ s["absint"] > 0 => s["modules"] + s["programs"] > 0
       \* every file holds at least one program unit and every unit lives in a file
       /\ s["modules"] + s["submodules"] + s["programs"] + s["procedures"] + s["blockdata"] >= s["files"]
       /\ shape' = [k \in Kinds \cup Opts |-> IF k \in Kinds THEN s[k] ELSE o[k]]
  /\ phase' = "chosen" /\ UNCHANGED out

(* ---- list pages written (Documentation.__init__) -------------------------- *)
Written ==
     (IF shape["procedures"] > 0 THEN {"lists/procedures.html"} ELSE {})
  \cup (IF shape["incl_src"] /\ shape["files"] + shape["extra"] > 1 THEN {"lists/files.html"} ELSE {})
  \cup (IF shape["modules"] + shape["submodules"] > 0 THEN {"lists/modules.html"} ELSE {})
  \cup (IF shape["programs"] > 1 THEN {"lists/programs.html"} ELSE {})
  \cup (IF shape["types"] > 0 THEN {"lists/types.html"} ELSE {})
  \cup (IF shape["absint"] > 0 THEN {"lists/absint.html"} ELSE {})
  \cup (IF shape["blockdata"] > 1 THEN {"lists/blockdata.html"} ELSE {})
  \cup (IF shape["namelists"] > 0 THEN {"lists/namelists.html"} ELSE {})

(* ---- list pages linked from the navigation bar of every page (base.html) --- *)
NavBar ==
     (IF shape["incl_src"] /\ shape["files"] + shape["extra"] > 1 THEN {"lists/files.html"} ELSE {})
  \cup (IF shape["modules"] > 0 THEN {"lists/modules.html"} ELSE {})
  \cup (IF shape["blockdata"] > 1 THEN {"lists/blockdata.html"} ELSE {})
  \cup (IF shape["procedures"] > 0 THEN {"lists/procedures.html"} ELSE {})
  \cup (IF shape["absint"] > 0 THEN {"lists/absint.html"} ELSE {})
  \cup (IF shape["types"] > 0 THEN {"lists/types.html"} ELSE {})
  \cup (IF shape["namelists"] > 0 THEN {"lists/namelists.html"} ELSE {})
  \cup (IF shape["programs"] > 1 THEN {"lists/programs.html"} ELSE {})

(* ---- list pages linked from the front page (index.html) -------------------- *)
FrontShown == shape["front_items"] /\
              ((shape["incl_src"]) \/ shape["modules"] > 0 \/ shape["procedures"] > 0 \/ shape["types"] > 0)
Front ==
  IF ~FrontShown THEN {}
  ELSE (IF shape["incl_src"] /\ ("IndexFilesLink" \in Dev \/ shape["files"] + shape["extra"] > 1)
           THEN {"lists/files.html"} ELSE {})
       \cup (IF shape["modules"] > 0 THEN {"lists/modules.html"} ELSE {})
       \cup (IF shape["procedures"] > 0 THEN {"lists/procedures.html"} ELSE {})
       \cup (IF shape["types"] > 0 THEN {"lists/types.html"} ELSE {})

Emit ==
  /\ phase = "chosen" /\ phase' = "done"
  /\ out' = [written |-> Written, nav |-> NavBar, front |-> Front]
  /\ UNCHANGED shape

Next == Choose \/ Emit
Spec == Init /\ [][Next]_vars

NavLinksWritten == phase = "chosen" => (NavBar \cup Front) \subseteq Written
NeverOneFile == ~(phase = "chosen" /\ shape["files"] = 1 /\ shape["extra"] = 0 /\ shape["incl_src"])   \* vacuity guard
=============================================================================
