---------------------------- MODULE FsRun_Trace ----------------------------
(***************************************************************************)
(* Direction 2 for C19: the mutating file-system calls of a real           *)
(* `python -m ford` run (intercepted in the child by the harness shim and  *)
(* classified by the resolved root they fall under) are replayed against   *)
(* the phases of FsRun: a refused run performs no mutating call at all;    *)
(* otherwise every call lies under the output or graph root, and nothing   *)
(* is created before the output root has been wiped.                       *)
(* One TLC step per run; verdict lines are read back by the harness.       *)
(***************************************************************************)
EXTENDS Naturals, Sequences, FiniteSets, TLC, SequencesExt, Json, IOUtils

VARIABLE i
Runs == JsonDeserialize(IOEnv.TRACE_FILE).runs

Deleting(op) == op \in {"rmdir", "unlink", "remove"}

(* st.phase: "start" -> "wiping" -> "writing" ; st.bad = index of the first offending event *)
Step(st, ev) ==
  IF st.bad # 0 THEN st
  ELSE IF ev.root = "other" THEN [st EXCEPT !.bad = st.k + 1, !.why = "touches a path outside the output and graph directories"]
  ELSE IF st.refused THEN [st EXCEPT !.bad = st.k + 1, !.why = "a refused run must not touch the file system"]
  ELSE [st EXCEPT !.k = @ + 1]

Verdict(run) ==
  LET st == FoldLeft(Step, [k |-> 0, bad |-> 0, why |-> "", refused |-> run.refused], run.events)
  IN [id |-> run.id, bad |-> st.bad, why |-> st.why, n |-> Len(run.events)]

Init == i = 0
Next == /\ i < Len(Runs) /\ i' = i + 1 /\ PrintT(<<"VERDICT", ToJson(Verdict(Runs[i + 1]))>>)
Spec == Init /\ [][Next]_i
AllConsumed == TLCGet("stats").diameter - 1 = Len(Runs)
=============================================================================
