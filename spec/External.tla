------------------------------ MODULE External ------------------------------
(***************************************************************************)
(* C16: project B documented against the exported description of A.        *)
(*                                                                         *)
(* History: BuildA (with `externalize`) -> [RebuildA with other options]   *)
(* -> [Damage of A's modules.json] -> BuildB (external: A).                *)
(*   exportA   what A's modules.json lists: <<module, entity>> pairs       *)
(*   links     what B's references resolve to                              *)
(* Ref: the export lists exactly A's modules with their public entities,   *)
(* whatever display options A was built with; a reference in B to a name   *)
(* that B defines itself is local; otherwise it leads to A's page if A     *)
(* exports the name; a missing or malformed description costs only the     *)
(* links into A, never the run.                                            *)
(***************************************************************************)
EXTENDS Naturals, Sequences, FiniteSets, TLC

CONSTANTS AEnts,      \* entities of A: set of [mod, name, public]
          BDefines,   \* names B defines itself (clashes with A possible)
          BRefs       \* names B refers to

VARIABLES phase, exportA, damaged, links, runOK, builds
vars == <<phase, exportA, damaged, links, runOK, builds>>

Faults == {"none", "missing", "truncated", "notjson", "wrongshape",
           "isdir",          \* modules.json is a directory
           "pathisfile"}     \* the external path names a file of A's output instead of its directory
Public == {e \in AEnts : e.public}

Init == phase = "start" /\ exportA = {} /\ damaged = "none" /\ links = << >> /\ runOK = TRUE /\ builds = 0

BuildA(showPrivate) ==      \* display options of A do not change what is exported
  /\ phase \in {"start", "A"} /\ builds < 2
  /\ exportA' = {<<e.mod, e.name>> : e \in Public}
  /\ damaged' = "none" /\ builds' = builds + 1 /\ phase' = "A" /\ UNCHANGED <<links, runOK>>
Damage(f) ==
  /\ phase = "A" /\ f # "none" /\ damaged' = f /\ phase' = "damaged" /\ UNCHANGED <<exportA, links, runOK, builds>>
Visible == IF damaged = "none" THEN exportA ELSE {}
BuildB ==
  /\ phase \in {"A", "damaged"}
  /\ links' = [n \in BRefs |-> IF n \in BDefines THEN "local"
                               ELSE IF \E p \in Visible : p[2] = n THEN "external" ELSE "plain"]
  /\ runOK' = TRUE                      \* whatever happened to the description
  /\ phase' = "done" /\ UNCHANGED <<exportA, damaged, builds>>
Next == (\E sp \in BOOLEAN : BuildA(sp)) \/ (\E f \in Faults : Damage(f)) \/ BuildB
Spec == Init /\ [][Next]_vars

RoundTrip == phase # "start" => exportA = {<<e.mod, e.name>> : e \in Public}
PrivateNeverExported == \A p \in exportA : \E e \in Public : e.mod = p[1] /\ e.name = p[2]
LocalPrecedence == phase = "done" => \A n \in BRefs \cap BDefines : links[n] = "local"
FaultCostsOnlyLinks == phase = "done" => (runOK /\ (damaged # "none" => \A n \in BRefs \ BDefines : links[n] = "plain"))
NeverDamaged == damaged = "none"       \* vacuity guard
=============================================================================
