-------------------------------- MODULE Calls --------------------------------
(***************************************************************************)
(* C08: the procedures a unit invokes.  A case is one executable statement *)
(* built from a statement form and expression trees (depth <= 2) over a    *)
(* vocabulary with overlapping spellings:                                  *)
(*    user functions    fa, fb, size_of        user subroutines  p, iffy   *)
(*    arrays            sinx                    scalars           callme, x*)
(*    intrinsics        sin, size               literals  'call fa(x)'     *)
(* Ref (DESIGN.md B.6): CallSet = user procedures invoked by CALL          *)
(* statements and function references anywhere in the statement, each      *)
(* once; never intrinsics, keywords, array elements, variables, FORMAT,    *)
(* arithmetic IF / computed GOTO targets or text inside literals.          *)
(***************************************************************************)
EXTENDS Naturals, Sequences, FiniteSets, TLC

VARIABLES form, args, phase, out
vars == <<form, args, phase, out>>

UserFuncs == {"fa", "size_of"}
Intrinsics == {"sin", "size"}
Atoms == {"callme", "1", "sinx(i)", "'call fa(x)'", "x"}
Leaf(a) == [k |-> "atom", f |-> a, a1 |-> <<>>, a2 |-> <<>>]
Call1(f, e) == [k |-> "call1", f |-> f, a1 |-> <<e>>, a2 |-> <<>>]
Call2(f, e1, e2) == [k |-> "call2", f |-> f, a1 |-> <<e1>>, a2 |-> <<e2>>]
Group(e) == [k |-> "group", f |-> "", a1 |-> <<e>>, a2 |-> <<>>]          \* (e + 1.0): a parenthesis that is no argument list

E0 == {Leaf(a) : a \in Atoms}
E1 == E0 \cup {Call1(f, e) : f \in UserFuncs \cup Intrinsics, e \in E0}
E2 == E1 \cup {Call1(f, e) : f \in UserFuncs \cup Intrinsics, e \in E1 \ E0}
         \cup {Call2("fb", e1, e2) : e1 \in E1, e2 \in E0 \cup {Call1("fa", Leaf("1"))}}
         \cup {Group(e) : e \in E1 \ E0} \cup {Group(Group(e)) : e \in E1 \ E0}
         \cup {Call1("fa", Group(e)) : e \in E1 \ E0}

RECURSIVE FuncsIn(_)
FuncsIn(e) ==
  IF e.k = "atom" THEN {}
  ELSE IF e.k = "group" THEN FuncsIn(e.a1[1])
  ELSE (IF e.f \in UserFuncs \cup {"fb"} THEN {e.f} ELSE {})
       \cup FuncsIn(e.a1[1]) \cup (IF e.k = "call2" THEN FuncsIn(e.a2[1]) ELSE {})

(* statement forms: name, number of expression slots, subroutine called by the form itself *)
Forms == {
  [n |-> "assign", slots |-> 1, subs |-> {}],            \* x = E
  [n |-> "sum", slots |-> 2, subs |-> {}],               \* x = E + E
  [n |-> "call0", slots |-> 0, subs |-> {"p"}],            \* call p
  [n |-> "call0p", slots |-> 0, subs |-> {"p"}],           \* call p()
  [n |-> "call1", slots |-> 1, subs |-> {"p"}],            \* call p(E)
  [n |-> "callkw", slots |-> 1, subs |-> {"iffy"}],        \* call iffy(E)
  [n |-> "ifcall", slots |-> 2, subs |-> {"p"}],           \* if (E > 0) call p(E)
  [n |-> "ifassign", slots |-> 2, subs |-> {}],          \* if (E > 0) x = E
  [n |-> "ifthen", slots |-> 1, subs |-> {}],            \* if (E > 0) then / end if
  [n |-> "elseif", slots |-> 2, subs |-> {}],            \* if (..) then / else if (E) then / end if
  [n |-> "where", slots |-> 1, subs |-> {}],             \* where (sinx > E) sinx = 0
  [n |-> "dowhile", slots |-> 1, subs |-> {}],           \* do while (E < 3) / end do
  [n |-> "select", slots |-> 1, subs |-> {}],            \* select case (E) / case default / end select
  [n |-> "associate", slots |-> 1, subs |-> {}],         \* associate (z => E) / end associate
  [n |-> "print", slots |-> 1, subs |-> {}],             \* print *, E
  [n |-> "write", slots |-> 1, subs |-> {}],             \* write (*, *) E
  [n |-> "writefmt", slots |-> 1, subs |-> {}],          \* write (*, '(a, i3)') 'call fa(x)', E
  [n |-> "allocate", slots |-> 1, subs |-> {}],          \* allocate (arr(E))
  [n |-> "format", slots |-> 0, subs |-> {}],            \* 10 format (i3, f(2))   -- looks like calls, is none
  [n |-> "arithif", slots |-> 0, subs |-> {}],           \* if (x) 10, 20, 30
  [n |-> "cgoto", slots |-> 0, subs |-> {}],             \* go to (10, 20) x
  [n |-> "cgoto_label", slots |-> 0, subs |-> {}],       \* 5 go to (10, 20), i        -- a label in front
  [n |-> "cgoto_if", slots |-> 1, subs |-> {}],          \* if (E > 0) go to (10, 20), i
  [n |-> "cgoto_one", slots |-> 0, subs |-> {}],         \* goto (10, 20) i
  [n |-> "impdo", slots |-> 1, subs |-> {}],             \* print *, (E, i = 1, 3)     -- implied DO: a parenthesis that is no argument list
  [n |-> "callgroup", slots |-> 1, subs |-> {"p"}],        \* call p((E - 1.0) * 0.5)
  [n |-> "blockdecl", slots |-> 1, subs |-> {}],         \* block / integer :: q(3) / q(1) = E / end block
  [n |-> "tbcall", slots |-> 0, subs |-> {"circle%reset"}],          \* call c%reset()
  [n |-> "tbfunc", slots |-> 0, subs |-> {"circle%area"}],            \* x = c%area()
  [n |-> "assoc_tb", slots |-> 0, subs |-> {"circle%reset"}],         \* associate (obj => c) / call obj%reset() / end associate
  [n |-> "assoc_shadow", slots |-> 0, subs |-> {"logger%reset"}],     \* nested associate re-using the name: the inner selector wins
  [n |-> "assoc_inner_outer", slots |-> 0, subs |-> {"logger%reset", "circle%area"}],   \* ... and the outer one again after END ASSOCIATE
  [n |-> "assoc_elem", slots |-> 0, subs |-> {"circle%reset"}],       \* associate (obj => cs(2)) / call obj%reset()  -- selector with a subscript
  [n |-> "assoc_section", slots |-> 0, subs |-> {}],                  \* associate (row => sinx(2:3)) / x = row(1)   -- an array section is no call
  [n |-> "assoc_funcsel", slots |-> 1, subs |-> {}],                  \* associate (z => E) / x = z + z              -- calls inside the selector only
  [n |-> "extern", slots |-> 0, subs |-> {"extf"}],                   \* real :: extf / external extf / x = extf(1.0) -- pre-F90 declaration of an external function
  [n |-> "tb_two", slots |-> 0, subs |-> {"circle%reset", "logger%reset"}],   \* call c%reset() / call l%reset(): equally named bindings of two types are two procedures
  [n |-> "shadow_local", slots |-> 1, subs |-> {}],                   \* real :: weights(3) next to a use-associated function weights: x = weights(2) + E is an array element
  [n |-> "shadow_dummy", slots |-> 0, subs |-> {"inner"}],            \* call inner(): the same reference inside an internal procedure, for an array of the host (host association beats use association)
  [n |-> "return", slots |-> 0, subs |-> {}]}            \* no call at all

Init == form = << >> /\ args = <<>> /\ phase = "init" /\ out = {}
Choose ==
  /\ phase = "init"
  /\ \E f \in Forms :
       /\ form' = f
       /\ CASE f.slots = 0 -> args' = <<>>
            [] f.slots = 1 -> \E e \in E2 : args' = <<e>>
            [] f.slots = 2 -> \E e1 \in E1, e2 \in E1 : args' = <<e1, e2>>
  /\ phase' = "chosen" /\ UNCHANGED out

CallSet == form.subs
           \cup UNION {FuncsIn(args[i]) : i \in 1..Len(args)}

Emit == /\ phase = "chosen" /\ phase' = "done" /\ out' = CallSet /\ UNCHANGED <<form, args>>
Next == Choose \/ Emit
Spec == Init /\ [][Next]_vars

IntrinsicsAndVariablesNeverCalls == phase = "chosen" => CallSet \subseteq {"fa", "fb", "size_of", "p", "iffy", "circle%reset", "circle%area", "logger%reset", "extf", "inner"}
LiteralsNeverCalls == phase = "chosen" =>
   ((form.n = "assign" /\ args[1] = Leaf("'call fa(x)'")) => CallSet = {})
NeverNested == ~(phase = "chosen" /\ Cardinality(CallSet) >= 3)     \* vacuity guard
=============================================================================
