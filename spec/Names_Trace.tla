---------------------------- MODULE Names_Trace ----------------------------
(***************************************************************************)
(* Direction 2 for C10: every NameSelector.get_name call of a real FORD    *)
(* run (entity serial, output directory, name as written, lower-cased and  *)
(* symbol-replaced key, returned stem) is replayed against the selector    *)
(* model; the run is accepted iff every returned stem is the one the model *)
(* hands out and Injective holds after every call.  One TLC step per run.  *)
(* For a REPEATED call (an entity already named) only the returned name is *)
(* compared with the first answer (Stable); its number and stem fields are *)
(* not looked at again - the binding self-test of checks/c10.py therefore  *)
(* corrupts `n` of a first call and `ret` of a repeated one.               *)
(***************************************************************************)
EXTENDS Naturals, Sequences, FiniteSets, TLC, SequencesExt, Json, IOUtils

CONSTANT Dev
VARIABLE i

Runs == JsonDeserialize(IOEnv.TRACE_FILE).runs

Key(ev) == IF "CaseSensitiveCount" \in Dev THEN <<"raw", ev.raw>> ELSE <<"stem", ev.key>>
Base(ev) == IF ev.key = "" THEN "__unnamed__" ELSE ev.key
RECURSIVE Digits(_)
Digits(n) == IF n < 10 THEN <<n>> ELSE Digits(n \div 10) \o <<n % 10>>

(* model state: items: e -> <<base, n>>; counts: <<dir, key>> -> n; bad: index of first rejected event *)
Step(st, ev) ==
  IF st.bad # 0 THEN st
  ELSE IF ev.e \in DOMAIN st.items
  THEN (IF st.items[ev.e].ret = ev.ret THEN [st EXCEPT !.k = @ + 1] ELSE [st EXCEPT !.bad = st.k + 1, !.why = "unstable"])
  ELSE LET ck == <<ev.dir, Key(ev)>>
           n  == (IF ck \in DOMAIN st.counts THEN st.counts[ck] ELSE 0) + 1
           expect == [base |-> Base(ev), n |-> n]
           clash == \E x \in DOMAIN st.items : st.items[x].dir = ev.dir /\ st.items[x].ret = ev.ret
       IN IF ev.n # n \/ ev.base # Base(ev) THEN [st EXCEPT !.bad = st.k + 1, !.why = "stem differs from model"]
          ELSE IF clash THEN [st EXCEPT !.bad = st.k + 1, !.why = "Injective violated"]
          ELSE [st EXCEPT !.k = @ + 1,
                          !.items = [x \in DOMAIN st.items \cup {ev.e} |-> IF x = ev.e THEN [dir |-> ev.dir, ret |-> ev.ret] ELSE st.items[x]],
                          !.counts = [x \in DOMAIN st.counts \cup {ck} |-> IF x = ck THEN n ELSE st.counts[x]]]

Verdict(run) ==
  LET st == FoldLeft(Step, [k |-> 0, bad |-> 0, why |-> "", items |-> << >>, counts |-> << >>], run.events)
  IN [id |-> run.id, bad |-> st.bad, why |-> st.why, n |-> Len(run.events)]

Init == i = 0
Next == /\ i < Len(Runs) /\ i' = i + 1 /\ PrintT(<<"VERDICT", ToJson(Verdict(Runs[i + 1]))>>)
Spec == Init /\ [][Next]_i
AllConsumed == TLCGet("stats").diameter - 1 = Len(Runs)
=============================================================================
