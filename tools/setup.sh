#!/bin/sh
# Offline setup: syntax-check every spec with SANY and byte-compile the harness.
set -e
cd "$(dirname "$0")/.."
cd spec
for f in *.tla; do
  java -cp /opt/veriftools/tla/tla2tools.jar:/opt/veriftools/tla/CommunityModules-deps.jar tla2sany.SANY "$f" >/tmp/verif-sany.$$ 2>&1 || { cat /tmp/verif-sany.$$; rm -f /tmp/verif-sany.$$; echo "SANY failed on $f"; exit 1; }
done
rm -f /tmp/verif-sany.$$
cd ..
/venv/bin/python -m compileall -q vlib checks tools >/dev/null
mkdir -p evidence
echo "setup ok"
