#!/venv/bin/python
"""Confirm a sub-agent's seeded change and run the property's quick check against it.

usage: tools/try_seeded.py C04 [a b ...]   (inputs in /tmp/wt/out/<ID>/<k>/, results in /verif/seeded/<ID>-<k>/)
Never leaves /repo modified (git checkout -- . afterwards)."""
import json, os, re, shutil, subprocess, sys

SRC = os.path.join(os.path.dirname(os.path.dirname(os.path.abspath(__file__))), "seeded", "_inbox")
ROOT = os.path.dirname(os.path.dirname(os.path.abspath(__file__)))
BASE = "cd /repo && /venv/bin/python -m pytest -q -p no:cacheprovider --timeout=900 --continue-on-collection-errors -x --co -q >/dev/null"


def sh(cmd, **kw):
    return subprocess.run(cmd, shell=True, capture_output=True, text=True, **kw)


def suite():
    r = sh("cd /repo && /venv/bin/python -m pytest -q -p no:cacheprovider --timeout=900 --continue-on-collection-errors 2>&1 | tail -1")
    m = re.search(r"(\d+) passed", r.stdout)
    return int(m.group(1)) if m else -1, r.stdout.strip()


def main():
    pid = sys.argv[1]
    also = []
    for a in list(sys.argv[2:]):
        if a.startswith("--also="):
            also = a[7:].split(",")
            sys.argv.remove(a)
    ks = sys.argv[2:] or sorted(k for k in os.listdir(f"{SRC}/{pid}") if os.path.isdir(f"{SRC}/{pid}/{k}") and os.path.exists(f"{SRC}/{pid}/{k}/patch.diff"))
    for k in ks:
        d = f"{SRC}/{pid}/{k}"
        out = f"{ROOT}/seeded/{pid}-{k}"
        assert sh("git -C /repo status --porcelain").stdout.strip() == "", "/repo not clean"
        demo0 = sh(f"cd /repo && /venv/bin/python {d}/demo.py", timeout=900)
        ap = sh(f"git -C /repo apply {d}/patch.diff")
        if ap.returncode != 0:
            print(pid, k, "PATCH DOES NOT APPLY", ap.stderr[:300]); continue
        try:
            demo1 = sh(f"cd /repo && /venv/bin/python {d}/demo.py", timeout=900)
            npass, tail = suite()
            chk = sh(f"cd {ROOT} && ./check {pid} --tier quick", timeout=3600)
            others = {}
            for o in also:
                r_ = sh(f"cd {ROOT} && ./check {o} --tier quick", timeout=3600)
                others[o] = {"exit": r_.returncode, "first_violation": next((l[:300] for l in r_.stdout.splitlines() if l.startswith("VIOLATION")), None),
                             "last": (r_.stdout + r_.stderr).strip().splitlines()[-1][:300] if (r_.stdout + r_.stderr).strip() else ""}
                shutil.rmtree(f"{ROOT}/replays/{o}", ignore_errors=True)
        finally:
            sh("git -C /repo checkout -- .")
        nviol = len([l for l in chk.stdout.splitlines() if l.startswith("VIOLATION")])
        confirmed = demo0.returncode == 0 and demo1.returncode != 0 and npass == 255
        os.makedirs(out, exist_ok=True)
        shutil.copy(f"{d}/patch.diff", out); shutil.copy(f"{d}/demo.py", out)
        meta = json.load(open(f"{d}/meta.json")) if os.path.exists(f"{d}/meta.json") else {}
        meta.update({"property": pid, "confirmed_by_me": {
            "demo_on_unchanged_tree_exit": demo0.returncode, "demo_with_patch_exit": demo1.returncode,
            "suite_with_patch": tail, "suite_passed_with_patch": npass,
            "ran": [f"cd /repo && /venv/bin/python demo.py (unchanged, then with patch)", "baseline pytest command with patch",
                    f"./check {pid} --tier quick with patch"]},
            "check_result": {"exit": chk.returncode, "violation_lines": nviol,
                             "first_violation": next((l[:300] for l in chk.stdout.splitlines() if l.startswith("VIOLATION")), None)}})
        if others:
            meta["other_checks"] = others
        json.dump(meta, open(f"{out}/meta.json", "w"), indent=1)
        print(f"{pid}-{k}: confirmed={confirmed} (demo {demo0.returncode}->{demo1.returncode}, suite {npass}) check exit={chk.returncode} violations={nviol}" + "".join(f" | {o}: exit={v['exit']}" for o, v in others.items()))
        shutil.rmtree(f"{ROOT}/replays/{pid}", ignore_errors=True)


if __name__ == "__main__":
    main()
