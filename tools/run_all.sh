#!/bin/sh
# run every registered quick (or $1=thorough) check with VERIF_SEED=$2 (default 0); one summary line each
tier=${1:-quick}; seed=${2:-0}
cd "$(dirname "$0")/.."
for id in $(python3 -c "import json; print(' '.join(c['property_id'] for c in json.load(open('MANIFEST.json'))['checks']))"); do
  start=$(date +%s)
  out=$(VERIF_SEED=$seed ./check $id --tier $tier 2>&1); rc=$?
  end=$(date +%s)
  echo "$id rc=$rc $((end-start))s $(echo "$out" | grep -c '^VIOLATION') violations | $(echo "$out" | tail -1 | cut -c1-140)"
done
