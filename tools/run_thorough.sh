#!/bin/sh
# run the thorough tier of the given checks (default: all) one after the other; one summary line each
cd "$(dirname "$0")/.."
ids=${*:-$(python3 -c "import json; print(' '.join(c['property_id'] for c in json.load(open('MANIFEST.json'))['checks']))")}
for id in $ids; do
  start=$(date +%s)
  out=$(timeout 5400 ./check $id --tier thorough 2>&1); rc=$?
  end=$(date +%s)
  echo "$id rc=$rc $((end-start))s $(echo "$out" | grep -c '^VIOLATION') violations | $(echo "$out" | tail -1 | cut -c1-160)"
done
