#!/usr/bin/env python3
"""Regenerate MANIFEST.json from the table below (single source of truth for the interface)."""
import json, os, sys
ROOT = os.path.dirname(os.path.dirname(os.path.abspath(__file__)))

CHECKS = {
 "C02": dict(level="model_checking", ref="DESIGN.md 6/C02, 4.1",
   technique="TLA+ spec (Lex/ReaderImpl/FreeForm) model-checked with TLC; TLC-generated layouts replayed into FortranReader; recorded reader executions validated by TLC against the lexical-rule spec",
   text="TLC checks on the generator spec that the reference lexical rules recover the logical content from every layout (LayoutInvariant) and that the reader mechanism without deviations refines them; every complete file TLC reaches (exhaustive to a feature budget, seeded simulation beyond) is run through the real FortranReader and compared with the by-construction content; recorded executions (repository sources, sampled and all mismatching cases) are validated by TLC against RefLex and the as-built model.",
   note="Bounded: <=2-3 statements, <=3-4 tokens, literals <=2-3 atoms, feature budget 1-3 exhaustive / 7 random. Trusted: TLC, CPython re, TLA+ value parser, Python image of Lex.Canon (cross-checked by TLC each run). Domain restricted to valid free-form input (see evidence assumptions)."),
 "C04": dict(level="model_checking", ref="DESIGN.md 6/C04, 4.3, B.3",
   technique="TLA+ spec (Access.tla: generator + Fortran accessibility rule + as-built permission mechanism) model-checked with TLC; every generated specification part replayed into FORD's parser",
   text="TLC enumerates every specification part up to the bound (scope default at every position x declaration attribute x access/protected statement before/after x entity kind; type component/binding defaults x 4 binding forms; submodules), checks that the mechanism without deviations refines the rule and that the as-built deviations are exactly the recorded findings; each case is rendered in 2 spellings x 2 contexts, parsed by the real FORD and entity.permission compared with the rule.",
   note="Exhaustive over the stated product within MaxStmts (3-4 module statements, 5-6 type-body statements, 2 names). Trusted: TLC, the renderer (total function of the abstract program), CPython. Protected+private accepts either value."),
 "C06": dict(level="model_checking", ref="DESIGN.md 6/C06, 4.5, B.4",
   technique="TLA+ spec (Scopes.tla: module-graph generator + F2018 14.2.2 USE rules + as-built pub_*/get_used_entities tables) model-checked with TLC; generated projects replayed into FORD's parser/correlator under permuted file orders",
   text="TLC enumerates projects of 1-3 modules plus a probe scope within a feature budget (default public/private, access statements on own and imported names, USE forms plain/only/rename/only+rename/empty only/two USEs, re-export chains and diamonds), checks that the table mechanism without deviations refines the standard's rule and emits Ref's resolution of every candidate name; each project is rendered one module per file, correlated by the real FORD in several file orders, with probes in a program and inside module procedures, in 3 entity-kind assignments, and every probe reference compared with Ref.",
   note="Bounded: <=3 modules, 2 entity names + 1 alias, feature budget 2-4; mixed-form double USE with renames excluded (assumption). Trusted: TLC, renderer, CPython."),
 "C07": dict(level="model_checking", ref="DESIGN.md 6/C07, 4.5, B.5",
   technique="TLA+ spec (Nesting.tla: scoping-unit tree, F2018 host/use association rule, per-scope table mechanism incl. the shared-dictionary deviation) model-checked with TLC; every generated placement replayed into FORD's correlator",
   text="For each name class (type, abstract interface, procedure) TLC enumerates every set of scoping units (module, two sibling module procedures, an internal procedure, a second module, an external procedure) that declare the name and every placement of a USE, checks InnermostWins / SiblingInvisible / UnresolvedStaysText on the rule and that the table-copy mechanism refines it; each case is rendered (2 spellings, direct and re-exported through a third module), correlated by the real FORD in several file orders and every reference slot (variable type, extends, procedure pointer, call, binding target, final, generic specific) compared with Ref.",
   note="Exhaustive over the fixed scoping tree (<=6 declaration sites, 6 USE placements, 3 classes). Structure constructors, submodule parents and separate module procedure interfaces are not in this generator. Trusted: TLC, renderer, CPython."),
 "C10": dict(level="model_checking", ref="DESIGN.md 6/C10, 4.7, B.8",
   technique="TLA+ spec (Names.tla: NameSelector mechanism, Injective/Stable) model-checked with TLC; TLC-generated entity multisets built end to end by FORD; every recorded get_name call validated by TLC (Names_Trace.tla)",
   text="TLC checks that the selector hands distinct entities of one output directory distinct case-insensitive stems for every call sequence up to the bound and enumerates entity multisets over related names (case variants, operator/assignment interfaces, module vs submodule, unnamed programs and block data, equal file names in different directories); each multiset is rendered as a project and built by the real FORD: page objects vs files written, the page at every entity's URL holds that entity's tracer, ids unique per page, src/ copies serve the defining file; the get_name calls of every run are replayed by TLC against the selector model (returned stem = model stem, Injective after every call).",
   note="Bounded: sequences of <=2-3 entities over 15 (directory, name) pairs, plus seeded samples. Stem normalisation (lower-case + 4 symbol replacements) is supplied by the harness to TLC. Trusted: TLC, bs4 html.parser, renderer."),
 "C09": dict(level="model_checking", ref="DESIGN.md 6/C09, 4.7, B.8",
   technique="TLA+ spec (Pages.tla: list pages written vs. linked per project shape) model-checked with TLC; TLC-enumerated shapes built end to end by FORD and every link crawled before and after relocating the tree",
   text="TLC checks NavLinksWritten (every list page linked from the navigation bar or front page is written) for all project shapes (0..2 entities of each page-bearing kind x incl_src x front-page lists) and enumerates the shapes; each is rendered as a project, built by the real FORD with an option set (search, graph incl. table fallback, proc_internals, display, sort, page_dir), and every href/src/xlink:href and search-index url of every page must be relative, resolve to an existing file under the output directory and name an existing id; the output tree is then moved and crawled again.",
   note="Model checking covers page/navigation consistency only; link correctness itself is decided by the crawl (exploration). Shapes: exhaustive for counts 0/1, counts 2 and option sets sampled deterministically in quick. Trusted: TLC, bs4 html.parser, graphviz."),
 "C12": dict(level="exploration", ref="DESIGN.md 6/C12, 4.0",
   technique="TLA+ schedule model (Determinism.tla: nondeterministic discovery order, first-come numbering) model-checked with TLC; differential replay of the real FORD over file-order permutations, hash seeds, worker counts and output-directory histories",
   text="TLC shows on the schedule model that page numbering is schedule-independent iff files are parsed in a canonical order (and finds the counterexample for discovery-order parsing). The check then runs the real FORD on generated multi-file projects with equally named entities: every permutation of the file enumeration order (harness-supplied, in-process), PYTHONHASHSEED in {0,1,3(,2,17)}, parallel in {0,2(,8)}, output directory absent / stale from another project / from the same project (CLI), comparing whole output trees byte for byte (graphs and search index on).",
   note="Exploration over schedules: exhaustive over file orders for <=4 files in thorough, sampled in quick; 4 hand-sized generated projects. Trusted: TLC, graphviz determinism, the OS."),
 "C13": dict(level="model_checking", ref="DESIGN.md 6/C13, 4.8, B.10",
   technique="TLA+ spec (GraphBFS.tla: reachability-with-limits rule + add_nodes/add_to_graph hop machine) model-checked with TLC; every enumerated relation realised as a Fortran project and the real ford.graphs objects compared with Ref; add_to_graph calls recorded and checked",
   text="TLC checks ModelEqualsReach, EdgesJoinPresentNodes and WithinLimit for the hop-by-hop expansion machine over all relations on 3-4 nodes x graph_maxdepth 1..3 x graph_maxnodes {1,2,3,99} (and shows that a >= in the limit test is caught). Each relation is realised as module USE, call, type-composition and type-extension projects; for every entity the forward and the inverse per-entity graph built by the real code (limits given project-wide or in the entity's own metadata) must show exactly Ref's nodes, only edges of the relation between shown nodes including all edges of expanded nodes, the table fallback when hop one does not fit, and never a dangling edge; `graph: false` is checked on a sample.",
   note="Bounded to <=4 nodes per relation; graphs built through GraphManager as the repository's own fixture does, DOT source compared (SVG rendering off in the API tier). Trusted: TLC, graphviz python package's DOT emission, renderer."),
 "C19": dict(level="fault_enumeration", ref="DESIGN.md 6/C19, 4.11, B.13",
   technique="TLA+ spec (FsRun.tla: placements x crash points; FsRun_Trace.tla) checked with TLC; real `python -m ford` runs in sandbox trees with a failure injected at each successive mutating file-system call, whole-sandbox before/after snapshots, intercepted call log validated by TLC",
   text="TLC checks TouchedUnderRoots, SourcesSurvive, RefusedBeforeAnyDelete and RefusesWhenItMust over 14 placements (incl. symlinks and '..') and a crash before every step, and shows the two refusal-test deviations (no symlink resolution, last src_dir only) are caught. For every placement the real CLI is run with all copying options on, once cleanly and once per injected failure point (k-th mutating call raises EIO; every k in thorough, a seeded subset in quick); content hash + mode + link target of the whole sandbox are compared before/after and only paths under the resolved output / graph roots may differ; placements with a source directory inside the output directory must be refused with an untouched tree; the logged calls are replayed by TLC against the phase model.",
   note="Faults are injected at Python-level file-system calls (os.*, open, os.open) through a sitecustomize shim in the child's PYTHONPATH; child processes (dot) are covered by the snapshot only. Trusted: the shim, realpath, TLC."),
 "C20": dict(level="fault_enumeration", ref="DESIGN.md 6/C20, 4.0, B.14",
   technique="TLA+ umbrella spec (Pipeline.tla: ParseOk/ParseFail, correlate order, naming, write; Containment, NoRegistrationOfFailedFile, Terminates under fairness) model-checked with TLC; corrupted-file enumeration replayed differentially into FORD's parser/correlator under a watchdog",
   text="TLC checks on the pipeline model that a failed file is never registered, every corrupt file is reported, the observable of the valid files is unaffected (Containment) and the run terminates, and that the as-built deviation (print_error only prints) is visible to these invariants. The replay corrupts a valid source at every statement boundary (truncation), drops/adds END, misplaces CONTAINS, splices garbage and undecodable bytes, adds 13 malformed constructs and pairs of corrupt files, places the file before/between/after the valid files in the read order, and compares canonical tree and page URLs of the valid files and the diagnostics with the run without it; every run is under a 60 s watchdog.",
   note="One valid 3-file base project; default error settings. Files FORD accepts without any report are treated as ordinary sources (termination only). Trusted: TLC, canonical tree projection (vlib/tree.py), SIGALRM watchdog."),
 "C03": dict(level="model_checking", ref="DESIGN.md 6/C03, 4.4, B.2",
   technique="TLA+ specs (DocRoute.tla = reader mechanism composed with docstring consumption; Admonition.tla = transliterated note-box rewriting) model-checked with TLC; generated unit bodies and comment bodies replayed into FORD's parser, AdmonitionPreprocessor and markdown conversion",
   text="TLC checks EachDocOnItsEntity / NoLeakToContainer for every sequence of <=2-3 documented entities x {simple, block} x 10 comment placements (after inline/own line, before, the two alternate block forms, combinations) x gaps x separators on the reader+parser mechanism model, and ErrorsReported / WordsPreservedInOrder / StartsBecomeNotes for every comment body of <=4-5 lines over 20 line shapes on the rewriting model. Every routing case is rendered as Fortran in 4 contexts (module variables/types/interfaces, module procedures, type components, dummy arguments) and 2 marker sets and parsed by the real FORD (each entity's doc_list must hold exactly its tracer words in order, nothing leaks to the container); every body is run through the real AdmonitionPreprocessor (output compared line by line with the model) and through MetaMarkdown (rendered words once, in order).",
   note="Bounded as stated; HTML-level placement of the rendered documentation on generated pages is covered by C05/C10 tracer checks, not here. Trusted: TLC, python-markdown, the renderers."),
 "C14": dict(level="model_checking", ref="DESIGN.md 6/C14, 4.2",
   technique="TLA+ spec (FixedForm.tla: layout generator + transliterated FortranLine/convertToFree composed with the reader mechanism; FixedForm_Trace.tla) model-checked with TLC; generated layouts read by FortranReader(fixed=True); recorded convertToFree executions validated by TLC; whole programs rendered in both forms and canonical trees compared",
   text="TLC checks Equivalent (converter o reader yields the logical content) for every fixed-form layout within the bound (labels, five continuation characters, C/c/*/! comment lines and short/long blank lines between continued lines, inline comments and docs, sequence-field text; length limit on and off) on the converter without deviations, and shows each named deviation is caught. Each generated layout is read by the real FortranReader(fixed=True) and compared with the logical content; convertToFree input/output of the generated cases and of the repository's .f file is checked line by line against the converter model by TLC; a corpus of programs is rendered as free and as fixed form (seeded random breaks inside expressions and argument lists, labels, comment styles, columns 73+, wide lines with the limit off) and the canonical entity trees, docs and calls compared.",
   note="Bounded: <=2 statements x <=3 tokens, feature budget 2-3 (quick replays a seeded eighth of the layouts). Tab-format and OpenMP sentinels not generated. Trusted: TLC, renderers, vlib/tree.py."),
 "C15": dict(level="exploration", ref="DESIGN.md 6/C15, 4.10, B.12",
   technique="TLA+ spec (Settings.tla: precedence cli > --config > file > default, independence of format and working directory) checked with TLC and used as generator/oracle; every ProjectSettings field x every configuration case run through ford.initialize()",
   text="TLC checks Precedence / FormatIndependent on the reference and enumerates the configuration cases (type class x {Markdown metadata, fpm.toml} x defined in file / --config / dedicated flag x working directory). The harness reads the option list and types from the ProjectSettings dataclass itself, writes each case in the format's natural typed syntax (TOML arrays, tables, booleans, integers; one item per line in metadata; multi-line strings), runs the real ford.initialize() (argv, project file, optional fpm.toml) from two working directories and compares the effective value with the winning source's value (paths anchored at the project file); unknown keys must be reported without aborting, ill-typed flag/integer values must be rejected naming the option.",
   note="The TLA+ content is the precedence table (small by nature); value conversion is decided by the replay. 61 of 85 options varied; options needing real resources or derived values are listed in the evidence. Trusted: tomllib, argparse, the renderers."),
 "C17": dict(level="model_checking", ref="DESIGN.md 6/C17, 4.9, B.11",
   technique="TLA+ spec (PageTree.tla: page set / order / copied files per directory features vs. the get_page_tree walk) model-checked with TLC; every enumerated page directory materialised on disk and built by FORD",
   text="TLC checks ImplRefines, OnePagePerTitledMd, UntitledSkippedSiblingsKept and OrderedFirst over all 16,584 combinations of directory features (titled / untitled / absent pages at two levels, non-Markdown, hidden and backup files, sub-directory with or without index.md, four ordered_subpage variants, copy_subdir at both levels). Each combination is written to disk and built end to end; the HTML files under <output>/page/, the copied files and directories, the order of the navigation links, every link from every depth (crawler of C09), the |url| |page| |media| aliases and the report of untitled files are compared with Ref.",
   note="Two directory levels; quick builds a seeded 1/24 of the combinations, thorough all. ordered_subpage entries naming missing files and project-level copy_subdir are not varied (guide silent / see DESIGN.md). Trusted: TLC, bs4, renderer."),
}

NOT_YET = {}

def main():
    props = [json.loads(l) for l in open(os.path.join(ROOT, "properties.jsonl"))]
    checks = []
    for pid, c in CHECKS.items():
        checks.append({
            "property_id": pid,
            "quick_cmd": f"./check {pid} --tier quick",
            "thorough_cmd": f"./check {pid} --tier thorough",
            "evidence_file": f"evidence/{pid}.json",
            "replay_cmd_template": f"./check {pid} --replay {{path}}",
            "engine": "tlc+replay",
            "level_claimed": {"category": c["level"], "text": c["text"], "design_ref": c["ref"]},
            "level_note": c["note"],
            "technique": c["technique"],
        })
    na = [{"property_id": p["id"], "reason": NOT_YET.get(p["id"], "check not built yet in this round (planned; see DESIGN.md section 6); nothing is claimed for it")}
          for p in props if p["id"] not in CHECKS]
    m = {
     "version": 1,
     "setup_cmd": "./tools/setup.sh",
     "hooks": {"guard": "FORD_VERIF_TRACE", "enable": "recorders are harness-side wrappers installed by /verif/vlib when FORD_VERIF_TRACE=1; /repo needs no build step (checks import ford from /repo's working tree)",
               "baseline_off_cmd": "cd /repo && /venv/bin/python -m pytest -ra -q -p no:cacheprovider --timeout=900 --continue-on-collection-errors",
               "source_commits": [], "add_only": True},
     "engines": [{"name": "tlc+replay", "path": "vlib/", "serves_properties": sorted(CHECKS),
                  "kind_free_text": "explicit TLA+ specifications in spec/ checked with TLC 1.8; TLC-generated cases replayed into FORD in-process; recorded FORD executions validated by TLC trace specs"}],
     "checks": checks,
     "not_applicable": na,
     "notes": "See DESIGN.md. known_findings.json lists genuine defects (open = reported as KNOWN-FINDING, fixed = repaired by a fix: commit in /repo).",
    }
    json.dump(m, open(os.path.join(ROOT, "MANIFEST.json"), "w"), indent=1)

if __name__ == "__main__":
    main()
