#!/usr/bin/env python3
"""Print the Markdown tables of DESIGN.md sections 9 and 10 from known_findings.json and seeded/*/meta.json."""
import glob
import json
import os
import re

ROOT = os.path.dirname(os.path.dirname(os.path.abspath(__file__)))
k = json.load(open(os.path.join(ROOT, "known_findings.json")))


def cell(s, n=400):
    s = " ".join(str(s).split()).replace("|", "\\|")
    return s if len(s) <= n else s[: n - 1] + "…"


print("#### Open findings\n")
print("| id | what fails | recognised by (signature) |")
print("|---|---|---|")
for e in k["findings"]:
    if e.get("status") == "open":
        print(f"| {e['id']} | {cell(e['what'])} | {cell(e['signature'], 300)} |")
print("\n#### Repaired (`fix:` commits in /repo)\n")
print("| id | commit | what failed |")
print("|---|---|---|")
for f in k["fixed"]:
    m = re.match(r"fixed: property=(\S+) (\S+) (\S+?): (.*)", f)
    if m:
        print(f"| {m.group(3)} | {m.group(2)} | {cell(m.group(4))} |")
    else:
        print(f"| ? | ? | {cell(f)} |")
print("\n#### Seeded changes\n")
print("| change | what it breaks (sub-agent's summary, shortened) | own check | first violation reported |")
print("|---|---|---|---|")
for d in sorted(glob.glob(os.path.join(ROOT, "seeded", "C*-*"))):
    m = json.load(open(os.path.join(d, "meta.json")))
    cr = m.get("check_result", {})
    fv = re.sub(r"VIOLATION property=\S+ replay=\S+\s*", "", cr.get("first_violation") or "")
    others = ", ".join(f"{o} {'catches it' if v.get('exit') == 1 else 'does not'}" for o, v in (m.get("other_checks") or {}).items())
    own = "caught" if cr.get("exit") == 1 else "not caught" + (f" ({others})" if others else "")
    print(f"| {os.path.basename(d)} | {cell(m.get('summary', ''), 230)} | {own} | {cell(fv, 160)} |")
