#!/bin/sh
# re-confirm every seeded change against the current checks (own property's quick check); one line each
cd "$(dirname "$0")/.."
for id in C01 C02 C03 C04 C05 C06 C07 C08 C09 C10 C11 C12 C13 C14 C15 C16 C17 C18 C19 C20; do
  timeout 7000 ./tools/try_seeded.py $id 2>&1 | grep "^C[0-9][0-9]"
done
